"""Per-run simulation context: loop + clocks + chooser + trace + oracle plumbing."""

from __future__ import annotations

import asyncio
import gc
import hashlib
import itertools
import logging
import os
import signal
import random
import sys
import traceback
import warnings
from datetime import datetime, timedelta, timezone
from typing import Any, Callable, Coroutine

import time_machine

from .chooser import Chooser, SeededChooser, TapeChooser
from .loop import SimDeadlock, SimLivelock, SimLoop

IMPORT_EPOCH = datetime(2024, 1, 1, tzinfo=timezone.utc)
"""Wall-clock instant at which the SDK is imported (import-time `datetime.now()` defaults)."""

BASE_EPOCH = datetime(2024, 3, 1, tzinfo=timezone.utc)

CURRENT: "Sim | None" = None

_PERMS = {n: list(itertools.permutations(range(n))) for n in (2, 3, 4)}


def _permute(items: list[Any], k: int) -> list[Any]:
    """k-th permutation (k=0 identity) of the first min(4, n) items."""
    n = min(4, len(items))
    if n < 2 or k == 0:
        return items
    p = _PERMS[n][k % len(_PERMS[n])]
    return [items[i] for i in p] + items[n:]


def _nperms(n: int) -> int:
    return {0: 1, 1: 1, 2: 2, 3: 6}.get(n, 24)


class Violation(BaseException):
    """A property violation found by an oracle.  (A BaseException: oracles also run inside SDK callbacks, and an
    `except Exception: retry` loop of the SDK must not be able to swallow the verdict and spin on it.)"""

    def __init__(self, clause: str, signature: dict[str, Any], detail: str = "") -> None:
        super().__init__(f"{clause}: {detail}")
        self.clause = clause
        self.signature = signature
        self.detail = detail


class SimSet(set):  # type: ignore[type-arg]
    """`set` whose Python-level iteration order is decided by the simulator (N4)."""

    def __iter__(self) -> Any:
        items = sorted(set.__iter__(self), key=lambda t: getattr(t, "_sim_seq", 0))
        sim = CURRENT
        if sim is not None and len(items) >= 2 and sim.order_choices:
            k = sim.ch.draw("setorder", _nperms(len(items)))
            if k:
                sim.count("order_permuted")
                items = _permute(items, k)
        return iter(items)

    def __sub__(self, other: Any) -> "SimSet":
        return SimSet(set.__sub__(self, other))

    def __or__(self, other: Any) -> "SimSet":
        return SimSet(set.__or__(self, other))

    def __and__(self, other: Any) -> "SimSet":
        return SimSet(set.__and__(self, other))

    def copy(self) -> "SimSet":
        return SimSet(set.copy(self))


_ORIG_WAIT = asyncio.wait
_PATCHED = False


async def _sim_wait(fs: Any, *, timeout: Any = None, return_when: Any = asyncio.ALL_COMPLETED) -> Any:
    done, pending = await _ORIG_WAIT(fs, timeout=timeout, return_when=return_when)
    return SimSet(done), SimSet(pending)


def install_patches() -> None:
    """Process-wide seams (harness process only; nothing is written to /repo)."""
    global _PATCHED
    if _PATCHED:
        return
    _PATCHED = True
    asyncio.wait = _sim_wait  # type: ignore[assignment]
    asyncio.tasks.wait = _sim_wait  # type: ignore[assignment]
    warnings.simplefilter("ignore")
    logging.disable(logging.CRITICAL)
    sys.unraisablehook = lambda *a, **k: None  # coroutines torn down at run end


def import_sdk() -> None:
    """Import the SDK under a fixed wall clock and make BackgroundService's task set ordered."""
    install_patches()
    repo_src = os.environ.get("VERIF_REPO_SRC", "/repo/src")
    if repo_src not in sys.path:
        sys.path.insert(0, repo_src)
    with time_machine.travel(IMPORT_EPOCH, tick=False):
        import frequenz.sdk.actor._background_service as bs
        import frequenz.sdk.microgrid  # noqa: F401
        import frequenz.sdk.timeseries  # noqa: F401
        import frequenz.sdk.timeseries.formula_engine  # noqa: F401
        import frequenz.sdk.microgrid._power_distributing  # noqa: F401
        import frequenz.sdk.microgrid._power_managing  # noqa: F401
        import frequenz.sdk.microgrid._data_sourcing  # noqa: F401
        import frequenz.sdk.microgrid._resampling  # noqa: F401

        bs.set = SimSet  # type: ignore[attr-defined]
    import frequenz.sdk

    src = frequenz.sdk.__file__ or ""
    if not src.startswith(repo_src.rstrip("/") + "/"):
        raise RuntimeError(f"SDK imported from {src}, not from {repo_src}")


class Sim:
    """One simulated run."""

    def __init__(self, ch: Chooser, *, epoch: datetime | None = None) -> None:
        self.ch = ch
        self.trace: list[tuple[Any, ...]] = []
        self.events: list[str] = []
        self.faults: dict[str, int] = {}
        self.probes: dict[str, int] = {}
        self.counters: dict[str, int] = {}
        self.model_states: set[Any] = set()
        self.model_transitions: set[Any] = set()
        self.order_choices = True
        self.tie_choices = True
        self.epoch = epoch or BASE_EPOCH
        self._trav: Any = None
        self._tm: Any = None
        self.loop: SimLoop = None  # type: ignore[assignment]
        self.evno = 0
        self.config: dict[str, Any] = {}
        self.nontrivial = False
        self.thorough = os.environ.get("VERIF_TIER_ACTIVE", "quick") == "thorough"
        self.violations: list[dict[str, Any]] = []
        self._fatal: Violation | None = None
        self._restore: list[Callable[[], None]] = []

    # ----------------------------------------------------------- life-cycle
    def __enter__(self) -> "Sim":
        global CURRENT
        gc.collect()
        gc.disable()
        self._tm = time_machine.travel(self.epoch, tick=False)
        self._trav = self._tm.start()
        self.loop = SimLoop(self)
        asyncio.set_event_loop(self.loop)
        CURRENT = self
        return self

    def __exit__(self, *exc: Any) -> None:
        global CURRENT
        try:
            self._teardown()
        finally:
            CURRENT = None
            asyncio.set_event_loop(None)
            self._tm.stop()
            gc.enable()

    def _teardown(self) -> None:
        for fn in reversed(self._restore):
            fn()
        self._restore.clear()
        loop = self.loop
        if loop.is_closed():
            return
        self.order_choices = False
        self.tie_choices = False
        loop.idle_hooks.clear()
        loop._ext.clear()
        loop.cost_mode = 0
        loop.max_steps = loop.steps + 200_000
        async def _drain(n: int) -> None:
            for _ in range(n):
                await asyncio.sleep(0)

        for rnd in range(8):
            tasks = [t for t in asyncio.all_tasks(loop) if not t.done()]
            if not tasks:
                break
            for t in tasks:
                t.cancel()
            try:
                # let cancellation chains (stop() -> wait() -> ...) unwind before cancelling again
                for _ in range(6):
                    loop.run_until_complete(_drain(10))
                    if not [t for t in asyncio.all_tasks(loop) if not t.done()]:
                        break
            except BaseException:  # pylint: disable=broad-except
                break
        # Tasks that would not finish (only ever seen on a broken SDK) are kept alive for the rest of the process:
        # if they were dropped, the garbage collector would close() their coroutines later, outside any event loop,
        # where e.g. an actor's restart loop turns every "no running event loop" error into another restart - a
        # busy loop inside gc.collect() that no step cap can bound.  Processes end with os._exit (runner), so the
        # finalisers never run.
        left = [t for t in asyncio.all_tasks(loop) if not t.done()]
        if left:
            _LEAKED.append((left, [t.get_coro() for t in left], loop))
            self.count("teardown_leaked_tasks", len(left))
        try:
            loop.close()
        except Exception:  # pylint: disable=broad-except
            pass

    # ---------------------------------------------------------------- clocks
    def _on_clock(self, now_us: int) -> None:
        self._trav.move_to(self.epoch + timedelta(microseconds=now_us))

    def wall(self) -> datetime:
        return self.epoch + timedelta(microseconds=self.loop.now_us)

    def wall_at(self, us: int) -> datetime:
        return self.epoch + timedelta(microseconds=us)

    @property
    def now_us(self) -> int:
        return self.loop.now_us

    def scale(self, quick: int, thorough: int) -> int:
        """Size knob: the thorough tier explores longer histories / more actors, not only more seeds."""
        return thorough if self.thorough else quick

    def tick_wall_clock_on_read(self, module: Any, us: int) -> None:
        """Make every `datetime.now()` issued from `module` cost `us` microseconds (N2: time passes *inside* a
        callback too, two consecutive reads of the wall clock differ).  Restored at the end of the run."""
        import datetime as _dt

        sim = self
        orig = module.datetime

        class TickingDatetime(_dt.datetime):
            @classmethod
            def now(cls, tz: Any = None) -> Any:  # type: ignore[override]
                sim.loop.advance(us)
                return _dt.datetime.now(tz)

        module.datetime = TickingDatetime
        self._restore.append(lambda: setattr(module, "datetime", orig))
        self.fault("wall_clock_ticks_between_reads")

    def stall(self, us: int) -> None:
        """Block the loop for `us` µs (GC pause / blocking call / CPU starvation)."""
        if us > 0:
            self.fault("stall")
            self.loop.advance(us)

    def set_cost_mode(self, mode: int, seed: int = 0) -> None:
        self.loop.cost_mode = mode
        self.loop._cost_rng = random.Random(seed)

    def _order_timer_ties(self, due: list[Any]) -> list[Any]:
        if not self.tie_choices:
            return due
        out: list[Any] = []
        i = 0
        while i < len(due):
            j = i + 1
            while j < len(due) and due[j]._when == due[i]._when:
                j += 1
            grp = due[i:j]
            if len(grp) > 1:
                self.probe("timer_tie")
                k = self.ch.draw("timertie", _nperms(len(grp)))
                if k:
                    self.count("tie_permuted")
                    grp = _permute(grp, k)
            out.extend(grp)
            i = j
        return out

    # --------------------------------------------------------------- tracing
    def ev(self, kind: str, *payload: Any) -> None:
        """Record an event (never draws, never reads a real clock)."""
        self.evno += 1
        self.trace.append((self.evno, self.loop.now_us, kind) + payload)

    def note(self, text: str) -> None:
        """Human-readable schedule/fault line for replay files."""
        if len(self.events) < 400:
            self.events.append(f"t={self.loop.now_us / 1e6:.6f} {text}")

    def fault(self, kind: str) -> None:
        self.faults[kind] = self.faults.get(kind, 0) + 1
        self.nontrivial = True

    def probe(self, name: str) -> None:
        self.probes[name] = self.probes.get(name, 0) + 1

    def count(self, name: str, n: int = 1) -> None:
        self.counters[name] = self.counters.get(name, 0) + n
        if name in ("order_permuted", "tie_permuted"):
            self.nontrivial = True

    def violation(self, clause: str, signature: dict[str, Any], detail: str = "") -> None:
        """Fatal violation: recorded, raised here and re-raised by the loop (so that a
        violation detected inside a task still ends the run)."""
        v = Violation(clause, signature, detail)
        if self._fatal is None:
            self._fatal = v
            self._record(clause, signature, detail)
        raise v

    def soft_violation(self, clause: str, signature: dict[str, Any], detail: str = "") -> None:
        """Non-fatal violation (first per class is kept); the run continues so that other
        oracles are still evaluated (used where a known finding would otherwise mask them)."""
        self._record(clause, signature, detail)

    def _record(self, clause: str, signature: dict[str, Any], detail: str) -> None:
        key = (clause, repr(sorted(signature.items())))
        for v in self.violations:
            if v["_key"] == key:
                v["count"] += 1
                return
        self.violations.append({"_key": key, "clause": clause, "signature": signature,
                                "detail": detail, "count": 1, "t_us": self.loop.now_us})
        self.note(f"VIOLATION {clause} {signature} {detail}")

    # ---------------------------------------------------------------- running
    def run(self, coro: Coroutine[Any, Any, Any]) -> Any:
        return self.loop.run_until_complete(coro)

    def at(self, delay_us: int, fn: Callable[..., Any], *args: Any) -> None:
        self.loop.at(delay_us, fn, *args)

    def spawn(self, coro: Coroutine[Any, Any, Any]) -> "asyncio.Task[Any]":
        return self.loop.create_task(coro)

    def digest(self) -> str:
        h = hashlib.sha256()
        for t in self.trace:
            h.update(repr(t).encode())
        return h.hexdigest()[:24]

    def adigest(self) -> str:
        """Abstract digest: kinds and first payload item (actor) only - the interleaving."""
        h = hashlib.sha256()
        for t in self.trace:
            h.update(repr((t[2], t[3] if len(t) > 3 else None)).encode())
        return h.hexdigest()[:24]


_LEAKED: list[Any] = []


class RunWallTimeout(BaseException):
    """Raised by the per-run watchdog (SIGALRM) when one run takes absurdly long in real time."""


def _alarm(signum: int, frame: Any) -> None:
    raise RunWallTimeout("run exceeded its wall-clock budget")


def execute(scenario: Callable[[Sim], None], ch: Chooser) -> dict[str, Any]:
    """Run one scenario under one chooser and return a plain-dict result."""
    res: dict[str, Any] = {"status": "ok"}
    epoch_off = ch.draw("epoch_phase", 4)
    # EPOCH phase is refined by scenarios that care (resampler); here only coarse variation
    epoch = BASE_EPOCH + timedelta(seconds=[0, 17, 3601, 86399][epoch_off])
    sim = Sim(ch, epoch=epoch)
    # watchdog: step caps bound the simulated work of a run, not a busy loop inside one callback or finaliser
    wall_cap = float(os.environ.get("VERIF_RUN_WALL_CAP", "60"))
    try:
        old_handler = signal.signal(signal.SIGALRM, _alarm)
        signal.setitimer(signal.ITIMER_REAL, wall_cap)
    except ValueError:      # not in the main thread
        old_handler = None
    try:
        with sim:
            try:
                scenario(sim)
            except Violation:
                pass
            except (SimDeadlock, SimLivelock) as e:
                res.update(status="harness_error", error=f"{type(e).__name__}: {e}",
                           tb=traceback.format_exc()[-3000:])
            except Exception as e:  # pylint: disable=broad-except
                # An exception that escapes to the top of the scenario.  If it was raised *inside the SDK* (innermost
                # frame in the source tree under test) by an operation the harness issued - all of which are meant to
                # be inside the property's quantifier - the SDK failed a legal call: reported as a violation (clause
                # sdk_raised), not as a broken harness.  Anything raised by harness code stays a harness error.
                tb_ = e.__traceback__
                while tb_ is not None and tb_.tb_next is not None:
                    tb_ = tb_.tb_next
                fn_ = tb_.tb_frame.f_code.co_filename if tb_ is not None else ""
                src_root = os.path.realpath(os.environ.get("VERIF_REPO_SRC", "/repo/src"))
                if os.path.realpath(fn_).startswith(src_root + os.sep):
                    sim.soft_violation("sdk_raised", {"exception": type(e).__name__, "in": tb_.tb_frame.f_code.co_name},  # type: ignore[union-attr]
                                       f"{type(e).__name__}: {e} raised by {os.path.relpath(fn_, src_root)}:"
                                       f"{tb_.tb_lineno} into the caller\n" + traceback.format_exc()[-1500:])  # type: ignore[union-attr]
                else:
                    res.update(status="harness_error", error=f"{type(e).__name__}: {e}",
                               tb=traceback.format_exc()[-3000:])
            if sim.violations and res["status"] == "ok":
                res["status"] = "violation"
            res["violations"] = [{k: v for k, v in d.items() if k != "_key"} for d in sim.violations]
            res.update(
                digest=sim.digest(),
                adigest=sim.adigest(),
                faults=dict(sim.faults),
                probes=dict(sim.probes),
                counters=dict(sim.counters),
                sim_us=sim.loop.now_us,
                steps=sim.loop.steps,
                nevents=len(sim.trace),
                nontrivial=sim.nontrivial,
                events=list(sim.events),
                config=dict(sim.config),
                states=sorted(map(repr, sim.model_states)),
                transitions=sorted(map(repr, sim.model_transitions)),
            )
    except BaseException as e:  # teardown problems etc.
        if res.get("status") == "ok":
            res.update(status="harness_error", error=f"teardown {type(e).__name__}: {e}",
                       tb=traceback.format_exc()[-3000:])
    finally:
        if old_handler is not None:
            signal.setitimer(signal.ITIMER_REAL, 0)
            signal.signal(signal.SIGALRM, old_handler)
    res["tape"] = [list(x) for x in ch.tape]
    return res


def run_seed(scenario: Callable[[Sim], None], seed: int) -> dict[str, Any]:
    r = execute(scenario, SeededChooser(seed))
    r["seed"] = seed
    return r


def run_tape(scenario: Callable[[Sim], None], values: list[int]) -> dict[str, Any]:
    return execute(scenario, TapeChooser(values))
