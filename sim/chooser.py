"""Choice sources.  Every random decision of a run goes through one of these.

The recorded *tape* (list of [label, value]) is the replay file's core: a run is
a pure function of (tape, code).  Value 0 is always the boring choice (no fault,
no delay, first alternative, creation order), so lowering values simplifies.
Replay is positional: labels are for humans only.
"""

from __future__ import annotations

import random
from typing import Any, Sequence


class Chooser:
    """Common interface."""

    def __init__(self) -> None:
        self.tape: list[list[Any]] = []

    # -- primitive -----------------------------------------------------------
    def _raw(self, label: str, n: int) -> int:
        raise NotImplementedError

    def draw(self, label: str, n: int) -> int:
        """Integer in [0, n)."""
        if n <= 1:
            return 0
        v = self._raw(label, n)
        self.tape.append([label, v])
        return v

    # -- derived -------------------------------------------------------------
    def chance(self, label: str, p: float) -> bool:
        """True with probability p (recorded as 0/1)."""
        if p <= 0:
            return False
        v = self._raw_chance(label, p)
        self.tape.append([label, v])
        return bool(v)

    def _raw_chance(self, label: str, p: float) -> int:
        raise NotImplementedError

    def choice(self, label: str, seq: Sequence[Any]) -> Any:
        return seq[self.draw(label, len(seq))]

    def weighted(self, label: str, weights: Sequence[int]) -> int:
        """Index drawn with the given integer weights; index 0 must be the boring one."""
        total = sum(weights)
        v = self._raw_weighted(label, weights, total)
        self.tape.append([label, v])
        return v

    def _raw_weighted(self, label: str, weights: Sequence[int], total: int) -> int:
        raise NotImplementedError

    def int_between(self, label: str, lo: int, hi: int) -> int:
        """Integer in [lo, hi]; recorded as offset from lo."""
        return lo + self.draw(label, hi - lo + 1)

    def shuffle(self, label: str, items: list[Any]) -> list[Any]:
        out = list(items)
        for i in range(len(out) - 1):
            j = i + self.draw(label, len(out) - i)
            out[i], out[j] = out[j], out[i]
        return out


class SeededChooser(Chooser):
    def __init__(self, seed: int) -> None:
        super().__init__()
        self.seed = seed
        self._rng = random.Random(seed)

    def _raw(self, label: str, n: int) -> int:
        return self._rng.randrange(n)

    def _raw_chance(self, label: str, p: float) -> int:
        return 1 if self._rng.random() < p else 0

    def _raw_weighted(self, label: str, weights: Sequence[int], total: int) -> int:
        x = self._rng.randrange(total)
        for i, w in enumerate(weights):
            if x < w:
                return i
            x -= w
        return len(weights) - 1


class TapeChooser(Chooser):
    """Replays recorded values positionally; zeros after the end."""

    def __init__(self, values: Sequence[int]) -> None:
        super().__init__()
        self._vals = list(values)
        self._pos = 0
        self.overrun = 0

    def _next(self) -> int:
        if self._pos < len(self._vals):
            v = self._vals[self._pos]
            self._pos += 1
            return int(v)
        self.overrun += 1
        return 0

    def _raw(self, label: str, n: int) -> int:
        v = self._next()
        return min(max(v, 0), n - 1)

    def _raw_chance(self, label: str, p: float) -> int:
        return 1 if self._next() else 0

    def _raw_weighted(self, label: str, weights: Sequence[int], total: int) -> int:
        v = self._next()
        return min(max(v, 0), len(weights) - 1)
