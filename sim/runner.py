"""Batch driver: seeded search over runs, minimisation, replay, known findings, evidence."""

from __future__ import annotations

import argparse
import concurrent.futures as cf
import faulthandler
import hashlib
import importlib
import json
import multiprocessing
import os
import signal
import sys
import time
from typing import Any

VERIF = os.path.dirname(os.path.dirname(os.path.abspath(__file__)))
DEFAULT_BASE_SEED = 20241001
WORKERS = min(16, os.cpu_count() or 1)


# --------------------------------------------------------------------------- helpers
def derive_seed(base: int, pid: str, i: int) -> int:
    h = hashlib.blake2b(f"{base}:{pid}:{i}".encode(), digest_size=8).digest()
    return int.from_bytes(h, "big") >> 1


def load_prop(pid: str) -> Any:
    return importlib.import_module(f"props.{pid.lower()}")


def class_key(v: dict[str, Any]) -> str:
    return v["clause"] + "|" + json.dumps(v["signature"], sort_keys=True, default=str)


def load_known() -> list[dict[str, Any]]:
    path = os.path.join(VERIF, "known_findings.json")
    if not os.path.exists(path):
        return []
    with open(path, encoding="utf-8") as f:
        return json.load(f).get("findings", [])


def match_known(pid: str, v: dict[str, Any], known: list[dict[str, Any]]) -> dict[str, Any] | None:
    for k in known:
        if k.get("status", "open") != "open":
            continue  # fixed entries suppress nothing
        if k["property"] != pid or k["clause"] != v["clause"]:
            continue
        ok = True
        for key, want in k.get("match", {}).items():
            have = str(v["signature"].get(key))
            if have not in [str(w) for w in (want if isinstance(want, list) else [want])]:
                ok = False
                break
        if ok:
            return k
    return None


# --------------------------------------------------------------------------- worker side
_MOD: Any = None
_MUTANT_UNDO: Any = None


def _worker_init(pid: str, mutant: str | None) -> None:
    global _MOD, _MUTANT_UNDO
    signal.signal(signal.SIGINT, signal.SIG_IGN)
    faulthandler.enable()
    from sim import env

    env.import_sdk()
    _MOD = load_prop(pid)
    if mutant:
        _MUTANT_UNDO = _MOD.MUTANTS[mutant]()


def _summ(r: dict[str, Any]) -> dict[str, Any]:
    keep = ("status", "seed", "digest", "adigest", "faults", "probes", "counters", "sim_us", "steps",
            "nontrivial", "states", "transitions", "error", "tb", "violations", "nevents")
    out = {k: r[k] for k in keep if k in r}
    if r["status"] != "ok":
        out["tape"] = r["tape"]
        out["events"] = r.get("events", [])
        out["config"] = r.get("config", {})
    return out


def _run_chunk(seeds: list[int], want_sample: bool) -> list[dict[str, Any]]:
    from sim import env

    out = []
    for i, s in enumerate(seeds):
        faulthandler.dump_traceback_later(120, exit=True)
        r = env.run_seed(_MOD.scenario, s)
        faulthandler.cancel_dump_traceback_later()
        sm = _summ(r)
        if want_sample and i == 0:
            sm["sample"] = {"seed": s, "config": r.get("config", {}), "events": r.get("events", [])[:40]}
        out.append(sm)
    return out


def _run_tape_job(values: list[int]) -> dict[str, Any]:
    from sim import env

    faulthandler.dump_traceback_later(120, exit=True)
    r = env.run_tape(_MOD.scenario, values)
    faulthandler.cancel_dump_traceback_later()
    return r


# --------------------------------------------------------------------------- minimisation
def minimise(pool: cf.Executor, tape: list[list[Any]], target: str, budget: int = 250,
             wall_s: float = 90.0) -> tuple[list[int], dict[str, Any], int]:
    """Shrink the tape while the same violation class (clause + signature) persists."""
    t0 = time.time()
    vals = [int(v) for _, v in tape]
    used = 0

    def test(cand: list[int]) -> dict[str, Any] | None:
        nonlocal used
        used += 1
        r = pool.submit(_run_tape_job, cand).result(timeout=300)
        if any(class_key(v) == target for v in r.get("violations", [])):
            return r
        return None

    best = test(vals)
    if best is None:
        return vals, {}, used  # not reproducible from its own tape (would be a determinism bug)

    def ok_budget() -> bool:
        return used < budget and time.time() - t0 < wall_s

    # 1. truncation (binary search on prefix length; tail becomes zeros)
    lo, hi = 0, len(vals)
    while lo < hi and ok_budget():
        mid = (lo + hi) // 2
        r = test(vals[:mid])
        if r is not None:
            hi, best = mid, r
        else:
            lo = mid + 1
    vals = vals[:hi]
    # 2. block deletion
    size = max(1, len(vals) // 2)
    while size >= 1 and ok_budget():
        i = 0
        while i < len(vals) and ok_budget():
            cand = vals[:i] + vals[i + size:]
            r = test(cand)
            if r is not None:
                vals, best = cand, r
            else:
                i += size
        size //= 2
    # 3. lowering
    for i in range(len(vals)):
        if not ok_budget():
            break
        if vals[i] == 0:
            continue
        for nv in (0, vals[i] // 2):
            if nv == vals[i]:
                continue
            cand = vals[:i] + [nv] + vals[i + 1:]
            r = test(cand)
            if r is not None:
                vals, best = cand, r
                break
    while vals and vals[-1] == 0:
        vals.pop()
    final = test(vals) or best
    return vals, final, used


# --------------------------------------------------------------------------- main check
def run_check(pid: str, tier: str, base_seed: int, runs: int | None, workers: int,
              mutant: str | None, max_wall: float | None, write_evidence: bool = True) -> int:
    t0 = time.time()
    sys.path.insert(0, VERIF)
    from sim import env

    env.import_sdk()
    mod = load_prop(pid)
    nruns = runs or (mod.QUICK_RUNS if tier == "quick" else mod.THOROUGH_RUNS)
    wall_cap = max_wall or (getattr(mod, "QUICK_WALL", 75.0) if tier == "quick"
                            else getattr(mod, "THOROUGH_WALL", 900.0))
    os.environ["VERIF_TIER_ACTIVE"] = tier
    known = load_known()
    chunk = max(1, min(getattr(mod, "CHUNK", 50), nruns // (workers * 4) or 1))
    seeds = [derive_seed(base_seed, pid, i) for i in range(nruns)]
    chunks = [seeds[i:i + chunk] for i in range(0, nruns, chunk)]

    agg: dict[str, Any] = dict(runs=0, faults={}, probes={}, counters={}, sim_us=0, steps=0,
                               adigests=set(), nontrivial_adigests=set(), nontrivial_runs=0,
                               states=set(), transitions=set(), harness=[], samples=[])
    viol_classes: dict[str, dict[str, Any]] = {}
    ctx = multiprocessing.get_context("fork")
    stopped_early = False
    with cf.ProcessPoolExecutor(max_workers=workers, mp_context=ctx, initializer=_worker_init,
                                initargs=(pid, mutant)) as pool:
        pending: set[cf.Future[Any]] = set()
        it = iter(enumerate(chunks))
        exhausted = False

        def submit_more() -> None:
            nonlocal exhausted
            while len(pending) < workers * 3 and not exhausted:
                try:
                    ci, c = next(it)
                except StopIteration:
                    exhausted = True
                    return
                pending.add(pool.submit(_run_chunk, c, ci < 6))

        submit_more()
        while pending:
            done, _ = cf.wait(pending, timeout=180, return_when=cf.FIRST_COMPLETED)
            if not done:
                print(f"HARNESS-ERROR property={pid} worker made no progress for 180 s", flush=True)
                _kill_pool(pool)
                return 2
            for fut in done:
                pending.discard(fut)
                try:
                    results = fut.result()
                except Exception as e:  # worker died
                    print(f"HARNESS-ERROR property={pid} worker failed: {type(e).__name__}: {e}", flush=True)
                    _kill_pool(pool)
                    return 2
                for r in results:
                    _aggregate(agg, r, viol_classes)
            if time.time() - t0 > wall_cap:
                stopped_early = not exhausted or bool(pending)
                exhausted = True
                for f in pending:
                    f.cancel()
                pending = {f for f in pending if not f.cancelled()}
            submit_more()

        # ---- triage violations: minimise one representative per class
        reported: list[dict[str, Any]] = []
        exit_code = 0
        for nclass, (key, info) in enumerate(sorted(viol_classes.items())):
            v = info["violation"]
            k = match_known(pid, v, known)
            # minimisation budget is spent on the first classes only; the rest keep their shortest tape
            vals, final, used = minimise(pool, info["tape"], key, budget=250 if nclass < 6 else 1)
            rep = {
                "property": pid, "clause": v["clause"], "signature": v["signature"], "detail": v["detail"],
                "seed": info["seed"], "base_seed": base_seed, "tier": tier, "class": key, "runs_hit": info["hits"],
                "tape": final.get("tape", info["tape"]) if final else info["tape"],
                "tape_values": vals, "minimise_reruns": used,
                "config": (final or {}).get("config", info.get("config", {})),
                "events": (final or {}).get("events", info.get("events", [])),
                "digest": (final or {}).get("digest"),
                "original_tape_len": len(info["tape"]),
            }
            cid = hashlib.sha1(key.encode()).hexdigest()[:8]
            path = os.path.join(VERIF, "replays", f"{pid}-{cid}{'-' + mutant if mutant else ''}.json")
            os.makedirs(os.path.dirname(path), exist_ok=True)
            with open(path, "w", encoding="utf-8") as f:
                json.dump(rep, f, indent=1, default=str)
            rep["path"] = path
            rep["known"] = k["id"] if k else None
            reported.append(rep)
            if k:
                print(f"KNOWN-FINDING: property={pid} {k['id']}: {k['what']} "
                      f"(hit in {info['hits']} runs; replay={path})", flush=True)
            else:
                print(f"VIOLATION property={pid} replay={path}", flush=True)
                print(f"  clause={v['clause']} signature={json.dumps(v['signature'], default=str)}", flush=True)
                print(f"  detail={v['detail']}", flush=True)
                print(f"  seed={info['seed']} tape {len(info['tape'])} -> {len(vals)} entries "
                      f"({used} re-runs); hit in {info['hits']} of {agg['runs']} runs", flush=True)
                exit_code = 1

    wall = time.time() - t0
    if agg["harness"]:
        h = agg["harness"][0]
        print(f"HARNESS-ERROR property={pid} {len(agg['harness'])} runs failed in the harness; first: "
              f"seed={h.get('seed')} {h.get('error')}", flush=True)
        print(h.get("tb", ""), flush=True)
        if exit_code == 0:
            exit_code = 2
    if write_evidence and not mutant:
        _write_evidence(pid, tier, base_seed, mod, agg, reported, wall, workers, stopped_early, nruns)
    nv = sum(1 for r in reported if not r["known"])
    print(f"[{pid}] tier={tier} runs={agg['runs']} distinct_interleavings={len(agg['adigests'])} "
          f"nontrivial_distinct={len(agg['nontrivial_adigests'])} sim_time={agg['sim_us'] / 1e6:.0f}s "
          f"violations={nv} known={len(reported) - nv} harness_errors={len(agg['harness'])} "
          f"wall={wall:.1f}s{' (stopped at wall cap)' if stopped_early else ''}", flush=True)
    return exit_code


def _kill_pool(pool: cf.ProcessPoolExecutor) -> None:
    for p in list(getattr(pool, "_processes", {}).values()):
        try:
            p.kill()
        except Exception:  # pylint: disable=broad-except
            pass


def _aggregate(agg: dict[str, Any], r: dict[str, Any], viol: dict[str, dict[str, Any]]) -> None:
    agg["runs"] += 1
    for name in ("faults", "probes", "counters"):
        for k, n in r.get(name, {}).items():
            agg[name][k] = agg[name].get(k, 0) + n
    agg["sim_us"] += r.get("sim_us", 0)
    agg["steps"] += r.get("steps", 0)
    if "adigest" in r:
        agg["adigests"].add(r["adigest"])
        if r.get("nontrivial"):
            agg["nontrivial_adigests"].add(r["adigest"])
            agg["nontrivial_runs"] += 1
    agg["states"].update(r.get("states", []))
    agg["transitions"].update(r.get("transitions", []))
    if "sample" in r and len(agg["samples"]) < 4:
        agg["samples"].append(r["sample"])
    if r["status"] == "harness_error":
        if len(agg["harness"]) < 20:
            agg["harness"].append(r)
        else:
            agg["harness"].append({"seed": r.get("seed")})
    for v in r.get("violations", []):
        key = class_key(v)
        e = viol.get(key)
        if e is None:
            viol[key] = dict(violation=v, tape=r["tape"], seed=r["seed"], hits=1,
                             events=r.get("events", []), config=r.get("config", {}))
        else:
            e["hits"] += 1
            if len(r["tape"]) < len(e["tape"]):
                e.update(tape=r["tape"], seed=r["seed"], events=r.get("events", []),
                         config=r.get("config", {}), violation=v)


def _write_evidence(pid: str, tier: str, base_seed: int, mod: Any, agg: dict[str, Any],
                    reported: list[dict[str, Any]], wall: float, workers: int, stopped_early: bool,
                    planned: int) -> None:
    nv = sum(1 for r in reported if not r["known"])
    ev = {
        "property_id": pid,
        "tier": tier,
        "seed": base_seed,
        "level": "exploration",
        "coverage": {
            "evaluations": agg["runs"],
            "distinct_nontrivial": len(agg["nontrivial_adigests"]),
            "rule": mod.RULE + " | counted: distinct abstract digests (sha256 over the sequence of "
                    "(event kind, actor) of the run's trace) among runs flagged non-trivial",
            "samples": agg["samples"] or [{"note": "no sample captured"}],
            "states": len(agg["states"]),
            "transitions": len(agg["transitions"]),
            "distinct_interleavings_all_runs": len(agg["adigests"]),
            "nontrivial_runs": agg["nontrivial_runs"],
            "runs_planned": planned,
            "stopped_at_wall_cap": stopped_early,
            "simulated_time_s": round(agg["sim_us"] / 1e6, 3),
            "loop_handles_executed": agg["steps"],
            "runs_per_hour": int(agg["runs"] / wall * 3600) if wall > 0 else 0,
            "workers": workers,
            "seed_derivation": "run i uses blake2b(f'{base}:{property}:{i}') >> 1 as PRNG seed",
            "faults_fired": dict(sorted(agg["faults"].items())),
            "reach_probes": dict(sorted(agg["probes"].items())),
            "counters": dict(sorted(agg["counters"].items())),
            "unreached_probes": [p for p in getattr(mod, "EXPECT_PROBES", []) if not agg["probes"].get(p)
                                 and not agg["faults"].get(p)],
            "real_components": mod.REAL,
            "stubbed_components": mod.STUB,
            "known_findings_hit": [{"id": r["known"], "clause": r["clause"], "runs_hit": r["runs_hit"],
                                    "replay": os.path.relpath(r["path"], VERIF)} for r in reported if r["known"]],
            "violations_reported": [{"clause": r["clause"], "signature": r["signature"],
                                     "replay": os.path.relpath(r["path"], VERIF)} for r in reported
                                    if not r["known"]],
            "harness_errors": len(agg["harness"]),
            "exhaustive": False,
        },
        "assumptions": getattr(mod, "ASSUMPTIONS", []) + [
            "asyncio ready queue is FIFO and single-threaded (documented); frequenz.channels is reliable FIFO",
            "wall clock == EPOCH + loop clock (no skew injected)",
            "sampling, not enumeration: a clean batch is evidence, not proof",
        ],
        "wall_s": round(wall, 2),
        "violations": nv,
    }
    os.makedirs(os.path.join(VERIF, "evidence"), exist_ok=True)
    with open(os.path.join(VERIF, "evidence", f"{pid}.json"), "w", encoding="utf-8") as f:
        json.dump(ev, f, indent=1, default=str)


# --------------------------------------------------------------------------- replay
def run_replay(pid: str, path: str, mutant: str | None = None) -> int:
    sys.path.insert(0, VERIF)
    from sim import env

    env.import_sdk()
    mod = load_prop(pid)
    if mutant:
        mod.MUTANTS[mutant]()
    with open(path, encoding="utf-8") as f:
        rep = json.load(f)
    os.environ["VERIF_TIER_ACTIVE"] = rep.get("tier", "quick")
    r = env.run_tape(mod.scenario, [int(v) for v in rep["tape_values"]])
    target = rep["class"]
    hit = [v for v in r.get("violations", []) if class_key(v) == target]
    for line in r.get("events", []):
        print("  " + line)
    if hit:
        same = r.get("digest") == rep.get("digest")
        print(f"VIOLATION property={pid} replay={path}")
        print(f"  reproduced: clause={hit[0]['clause']} signature={json.dumps(hit[0]['signature'], default=str)}")
        print(f"  detail={hit[0]['detail']}")
        print(f"  trace digest {'identical' if same else 'DIFFERS'}: {r.get('digest')} vs {rep.get('digest')}")
        return 1
    print(f"replay did not reproduce {target}; status={r['status']} "
          f"violations={[class_key(v) for v in r.get('violations', [])]} error={r.get('error')}")
    return 2 if r["status"] != "ok" or r.get("violations") else 3


def main(argv: list[str] | None = None) -> int:
    ap = argparse.ArgumentParser(prog="check")
    ap.add_argument("property")
    ap.add_argument("--tier", default=os.environ.get("VERIF_TIER", "quick"), choices=["quick", "thorough"])
    ap.add_argument("--replay")
    ap.add_argument("--runs", type=int)
    ap.add_argument("--seed", type=int)
    ap.add_argument("--workers", type=int, default=WORKERS)
    ap.add_argument("--mutant")
    ap.add_argument("--max-wall", type=float)
    ap.add_argument("--no-evidence", action="store_true")
    argv = sys.argv[1:] if argv is None else argv
    if argv and argv[0] == "selftest":
        from sim import selftest

        return selftest.main()
    a = ap.parse_args(argv)
    if a.property == "selftest":
        from sim import selftest

        return selftest.main()
    pid = a.property.upper()
    if a.replay:
        return run_replay(pid, a.replay, a.mutant)
    seed = a.seed
    if seed is None:
        env_seed = os.environ.get("VERIF_SEED")
        seed = int(env_seed) if env_seed not in (None, "") else DEFAULT_BASE_SEED
    return run_check(pid, a.tier, seed, a.runs, a.workers, a.mutant, a.max_wall, not a.no_evidence)
