"""Self-tests of the machinery (not property checks).

determinism: every harness, N seeds, each executed in two *separate fresh interpreters* with a
  different PYTHONHASHSEED, different seed order (so state leaking from one run into the next shows
  up) and a pile of pre-allocated garbage (moves object addresses); trace digests must be identical.
sensitivity: every in-process mutant registered by a property module must be reported as a
  VIOLATION by that property's check within a small budget.
"""

from __future__ import annotations

import json
import os
import subprocess
import sys
import time
from typing import Any

VERIF = os.path.dirname(os.path.dirname(os.path.abspath(__file__)))
ALL = ["C03", "C04", "C06", "C07", "C08", "C09", "C10", "C11", "C13", "C14", "C15", "C16", "C19", "C20"]


def _child(pid: str, n: int, reverse: bool, garbage: bool) -> None:
    sys.path.insert(0, VERIF)
    keep: Any = [[object() for _ in range(1000)] for _ in range(300)] if garbage else None
    from sim import env
    from sim.runner import derive_seed, load_prop

    env.import_sdk()
    mod = load_prop(pid)
    seeds = [derive_seed(777, pid, i) for i in range(n)]
    if reverse:
        seeds.reverse()
    out = {}
    for s in seeds:
        r = env.run_seed(mod.scenario, s)
        out[str(s)] = [r.get("digest"), r["status"], len(r["tape"])]
    del keep
    print("DIGESTS " + json.dumps(out))


def _spawn(pid: str, n: int, hashseed: int, reverse: bool, garbage: bool) -> "subprocess.Popen[str]":
    env = dict(os.environ, PYTHONHASHSEED=str(hashseed), PYTHONPATH=f"{VERIF}:" + os.environ.get("VERIF_REPO_SRC", "/repo/src"),
               PYTHONDONTWRITEBYTECODE="1")
    code = f"from sim.selftest import _child; _child({pid!r}, {n}, {reverse}, {garbage})"
    return subprocess.Popen(["/venv/bin/python", "-c", code], cwd=VERIF, env=env, text=True,
                            stdout=subprocess.PIPE, stderr=subprocess.DEVNULL)


def _parse(out: str) -> dict[str, Any]:
    for line in out.splitlines():
        if line.startswith("DIGESTS "):
            return json.loads(line[8:])
    return {}


def determinism(pids: list[str], n: int) -> int:
    bad = 0
    procs = []
    for pid in pids:
        if not os.path.exists(os.path.join(VERIF, "props", pid.lower() + ".py")):
            continue
        procs.append((pid, _spawn(pid, n, 0, False, False), _spawn(pid, n, 12345, True, True)))
    for pid, a, b in procs:
        oa, _ = a.communicate(timeout=1800)
        ob, _ = b.communicate(timeout=1800)
        da, db = _parse(oa), _parse(ob)
        if not da or not db:
            print(f"determinism {pid}: child failed (rc {a.returncode}/{b.returncode})")
            bad += 1
            continue
        diff = [s for s in da if da[s] != db.get(s)]
        print(f"determinism {pid}: {len(da)} seeds x 2 fresh interpreters (PYTHONHASHSEED 0 vs 12345, "
              f"reversed order, moved heap): {len(diff)} differing")
        for s in diff[:5]:
            print(f"   seed {s}: {da[s]} vs {db.get(s)}")
        bad += bool(diff)
    return bad


def sensitivity(pids: list[str], runs: int) -> int:
    bad = 0
    for pid in pids:
        path = os.path.join(VERIF, "props", pid.lower() + ".py")
        if not os.path.exists(path):
            continue
        sys.path.insert(0, VERIF)
        code = f"import sys; sys.path.insert(0, {VERIF!r}); from sim import env; env.import_sdk(); " \
               f"from sim.runner import load_prop; print(' '.join(load_prop({pid!r}).MUTANTS))"
        names = subprocess.run(["/venv/bin/python", "-c", code], cwd=VERIF, text=True, capture_output=True,
                               env=dict(os.environ, PYTHONPATH=f"{VERIF}:" + os.environ.get("VERIF_REPO_SRC", "/repo/src")), timeout=120).stdout.split()
        for m in names:
            t0 = time.time()
            p = subprocess.run([os.path.join(VERIF, "check"), pid, "--runs", str(runs), "--mutant", m,
                                "--no-evidence"], cwd=VERIF, text=True, capture_output=True, timeout=1800)
            found = p.returncode == 1 and "VIOLATION property=" in p.stdout
            clauses = sorted({ln.split("clause=")[1].split()[0] for ln in p.stdout.splitlines() if "clause=" in ln})
            # the minimised replay file must reproduce the same violation, bit-identically, in a fresh process
            replayed = "-"
            if found:
                path = next(ln.split("replay=")[1].strip() for ln in p.stdout.splitlines() if ln.startswith("VIOLATION property="))
                q = subprocess.run([os.path.join(VERIF, "check"), pid, "--replay", path, "--mutant", m], cwd=VERIF, text=True,
                                   capture_output=True, timeout=600)
                ok = q.returncode == 1 and "trace digest identical" in q.stdout
                replayed = "replay-ok" if ok else f"REPLAY-FAILED(rc={q.returncode})"
                bad += not ok
            print(f"sensitivity {pid} mutant {m}: {'caught' if found else 'MISSED'} rc={p.returncode} "
                  f"clauses={clauses} {replayed} {time.time() - t0:.1f}s")
            bad += not found
    return bad


def main() -> int:
    args = sys.argv[2:]
    pids = [a.upper() for a in args if not a.startswith("-")] or ALL
    n = 60
    for a in args:
        if a.startswith("--n="):
            n = int(a[4:])
    bad = 0
    if "--no-det" not in args:
        bad += determinism(pids, n)
    if "--no-sens" not in args:
        bad += sensitivity(pids, 400)
    print("selftest", "OK" if not bad else f"FAILED ({bad})")
    return 0 if not bad else 1
