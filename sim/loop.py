"""Virtual-time, FIFO-preserving, chooser-driven asyncio event loop.

`SimLoop` replaces the selector loop.  There is no real I/O and no real
sleeping: when nothing is runnable the clock jumps to the next timer or the
next *external event* (the simulator's stand-in for I/O readiness).  The ready
queue stays strictly FIFO and keeps asyncio's "callbacks scheduled during an
iteration run in the next iteration" rule, so only executions that CPython's
asyncio could really produce are explored (DESIGN §2).
"""

from __future__ import annotations

import asyncio
import heapq
import math
import random
from asyncio import events
from typing import Any, Callable

_MIN_SCHEDULED_TIMER_HANDLES = 100
_MIN_CANCELLED_TIMER_HANDLES_FRACTION = 0.5


class SimDeadlock(RuntimeError):
    """Nothing is runnable, no timer and no external event is pending."""


class SimLivelock(RuntimeError):
    """Too many loop iterations without the clock advancing / too many handles."""


def _when_to_us(when: float) -> int:
    """Convert a float deadline (seconds) to integer µs without rounding down.

    Rounding down would leave a timer 'almost due' forever (the loop would spin
    without advancing the clock).
    """
    us = when * 1_000_000
    r = round(us)
    if abs(us - r) < 1e-3:
        return r
    return math.ceil(us)


class SimLoop(asyncio.BaseEventLoop):
    """Discrete-event asyncio loop; one instance per simulated run."""

    def __init__(self, sim: Any) -> None:
        super().__init__()
        self._sim = sim
        self._now_us = 0
        self._clock_resolution = 1e-9
        self._ext: list[tuple[int, int, Callable[..., Any], tuple[Any, ...]]] = []
        self._ext_seq = 0
        self._task_seq = 0
        self.steps = 0
        self.iters = 0
        self.idle_jumps = 0
        self._iters_no_advance = 0
        self.max_steps = 3_000_000
        self.max_iters_no_advance = 50_000
        self.max_now_us = 10**13
        # micro-cost model (per executed handle); set by Sim from the tape
        self.cost_mode = 0
        self._cost_rng = random.Random(0)
        self.idle_hooks: list[Callable[[], None]] = []
        self.set_task_factory(self._sim_task_factory)
        self.set_exception_handler(self._exc_handler)
        self.unhandled: list[str] = []

    # ------------------------------------------------------------------ clock
    def time(self) -> float:
        return self._now_us / 1_000_000

    @property
    def now_us(self) -> int:
        return self._now_us

    def advance(self, us: int) -> None:
        """Advance both clocks by `us` microseconds (a stall if called from a callback)."""
        if us <= 0:
            return
        self._now_us += us
        self._iters_no_advance = 0
        self._sim._on_clock(self._now_us)

    # ------------------------------------------------ plumbing of BaseEventLoop
    def _process_events(self, event_list: Any) -> None:  # pragma: no cover
        pass

    def _write_to_self(self) -> None:
        pass

    def _exc_handler(self, loop: Any, context: dict[str, Any]) -> None:
        # "Task exception was never retrieved" etc.  Never printed; kept for harnesses.
        msg = context.get("message", "")
        exc = context.get("exception")
        self.unhandled.append(f"{msg}: {type(exc).__name__ if exc else ''}")

    def _sim_task_factory(self, loop: Any, coro: Any, **kw: Any) -> asyncio.Task[Any]:
        task = asyncio.Task(coro, loop=loop, **kw)
        self._task_seq += 1
        task._sim_seq = self._task_seq  # type: ignore[attr-defined]
        return task

    # -------------------------------------------------------- external events
    def at(self, delay_us: int, fn: Callable[..., Any], *args: Any) -> None:
        """Schedule an external event `delay_us` from now (enters like I/O readiness)."""
        self._ext_seq += 1
        heapq.heappush(self._ext, (self._now_us + max(0, int(delay_us)), self._ext_seq, fn, args))

    def at_abs(self, when_us: int, fn: Callable[..., Any], *args: Any) -> None:
        self._ext_seq += 1
        heapq.heappush(self._ext, (max(self._now_us, int(when_us)), self._ext_seq, fn, args))

    # ------------------------------------------------------------- iteration
    def _run_once(self) -> None:
        self.iters += 1
        self._iters_no_advance += 1
        if self._iters_no_advance > self.max_iters_no_advance:
            raise SimLivelock(f"{self._iters_no_advance} iterations without clock advance")
        if self.steps > self.max_steps:
            raise SimLivelock(f"more than {self.max_steps} handles executed")

        sched_count = len(self._scheduled)
        if (
            sched_count > _MIN_SCHEDULED_TIMER_HANDLES
            and self._timer_cancelled_count / sched_count > _MIN_CANCELLED_TIMER_HANDLES_FRACTION
        ):
            new_scheduled = []
            for handle in self._scheduled:
                if handle._cancelled:
                    handle._scheduled = False
                else:
                    new_scheduled.append(handle)
            heapq.heapify(new_scheduled)
            self._scheduled = new_scheduled
            self._timer_cancelled_count = 0
        else:
            while self._scheduled and self._scheduled[0]._cancelled:
                self._timer_cancelled_count -= 1
                handle = heapq.heappop(self._scheduled)
                handle._scheduled = False

        if not self._ready and not self._stopping:
            nxt: list[int] = []
            if self._scheduled:
                nxt.append(_when_to_us(self._scheduled[0]._when))
            if self._ext:
                nxt.append(self._ext[0][0])
            if not nxt:
                raise SimDeadlock("nothing runnable, no timers, no external events")
            target = min(nxt)
            if target > self.max_now_us:
                raise SimLivelock("virtual time cap exceeded")
            if target > self._now_us:
                self.idle_jumps += 1
                self.advance(target - self._now_us)

        # external events first (like I/O readiness), in (time, seq) order
        while self._ext and self._ext[0][0] <= self._now_us:
            _, _, fn, args = heapq.heappop(self._ext)
            self._ready.append(events.Handle(fn, args, self))

        # due timers; groups with *exactly* equal deadlines may be permuted (N5)
        # due = deadline, rounded to the integer-microsecond clock, not after now.  (Comparing floats as asyncio does
        # leaves a timer set for "now + 1 ulp" - a sub-nanosecond delay at simulated times of weeks - neither due nor
        # in the future of the microsecond clock: the loop would spin without advancing.)
        due: list[Any] = []
        while self._scheduled:
            handle = self._scheduled[0]
            if _when_to_us(handle._when) > self._now_us:
                break
            handle = heapq.heappop(self._scheduled)
            handle._scheduled = False
            due.append(handle)
        if len(due) > 1:
            due = self._sim._order_timer_ties(due)
        self._ready.extend(due)

        ntodo = len(self._ready)
        for _ in range(ntodo):
            handle = self._ready.popleft()
            if handle._cancelled:
                continue
            self.steps += 1
            handle._run()
            if self._sim._fatal is not None:
                raise self._sim._fatal
            if self.cost_mode:
                if self.cost_mode == 1:
                    self.advance(1)
                else:
                    self.advance(self._cost_rng.randint(0, 50))
        handle = None  # break cycles

        if not self._ready and self.idle_hooks:
            for hook in list(self.idle_hooks):
                hook()
            if self._sim._fatal is not None:
                raise self._sim._fatal
