"""In-process fakes for the one external party: the microgrid API."""

from __future__ import annotations

import asyncio
import math
import types
from datetime import datetime
from typing import Any, Callable

from frequenz.channels import Broadcast
from frequenz.client.microgrid import (
    ApiClientError,
    BatteryComponentState,
    BatteryData,
    BatteryRelayState,
    Component,
    ComponentCategory,
    Connection,
    EVChargerCableState,
    EVChargerComponentState,
    EVChargerData,
    InverterComponentState,
    InverterData,
    InverterType,
    MeterData,
)

NAN = math.nan
NAN3 = (NAN, NAN, NAN)


def battery_data(cid: int, ts: datetime, **kw: Any) -> BatteryData:
    d: dict[str, Any] = dict(
        component_id=cid, timestamp=ts, soc=50.0, soc_lower_bound=10.0, soc_upper_bound=90.0,
        capacity=10_000.0, power_inclusion_lower_bound=-1000.0, power_exclusion_lower_bound=0.0,
        power_inclusion_upper_bound=1000.0, power_exclusion_upper_bound=0.0, temperature=25.0,
        relay_state=BatteryRelayState.CLOSED, component_state=BatteryComponentState.IDLE,
        errors=[],
    )
    d.update(kw)
    return BatteryData(**d)


def inverter_data(cid: int, ts: datetime, **kw: Any) -> InverterData:
    d: dict[str, Any] = dict(
        component_id=cid, timestamp=ts, active_power=0.0, active_power_per_phase=NAN3,
        current_per_phase=NAN3, voltage_per_phase=NAN3,
        active_power_inclusion_lower_bound=-1000.0, active_power_exclusion_lower_bound=0.0,
        active_power_inclusion_upper_bound=1000.0, active_power_exclusion_upper_bound=0.0,
        reactive_power=NAN, reactive_power_per_phase=NAN3, frequency=50.0,
        component_state=InverterComponentState.IDLE, errors=[],
    )
    d.update(kw)
    return InverterData(**d)


def meter_data(cid: int, ts: datetime, **kw: Any) -> MeterData:
    d: dict[str, Any] = dict(
        component_id=cid, timestamp=ts, active_power=0.0, active_power_per_phase=NAN3,
        reactive_power=NAN, reactive_power_per_phase=NAN3, current_per_phase=NAN3,
        voltage_per_phase=NAN3, frequency=50.0,
    )
    d.update(kw)
    return MeterData(**d)


def ev_data(cid: int, ts: datetime, **kw: Any) -> EVChargerData:
    d: dict[str, Any] = dict(
        component_id=cid, timestamp=ts, active_power=0.0, active_power_per_phase=NAN3,
        current_per_phase=NAN3, reactive_power=NAN, reactive_power_per_phase=NAN3,
        voltage_per_phase=NAN3, active_power_inclusion_lower_bound=0.0,
        active_power_exclusion_lower_bound=0.0, active_power_inclusion_upper_bound=10000.0,
        active_power_exclusion_upper_bound=0.0, frequency=50.0,
        cable_state=EVChargerCableState.EV_LOCKED,
        component_state=EVChargerComponentState.CHARGING,
    )
    d.update(kw)
    return EVChargerData(**d)


class FakeApiError(ApiClientError):
    """An `ApiClientError` that is not one of the specific gRPC subclasses."""

    def __init__(self, msg: str = "fake api error") -> None:
        super().__init__(server_url="sim://", operation="set_power", description=msg, retryable=False)


class FakeMicrogridApi:
    """Fake API client: component data streams in, `set_power` calls out."""

    def __init__(self, sim: Any, components: set[Component], connections: set[Connection]) -> None:
        self.sim = sim
        self._components = components
        self._connections = connections
        self.chan: dict[int, Broadcast[Any]] = {}
        self.tx: dict[int, Any] = {}
        self.calls: list[dict[str, Any]] = []
        self.receivers_created: dict[int, int] = {}
        self.components_failures = 0      # the next N calls of components() raise an ApiClientError
        self.failure_times: list[int] = []
        self.outcome_fn: Callable[[int, float], tuple[str, int]] = lambda cid, w: ("ok", 0)
        self.open_delay_fn: Callable[[int], int] = lambda cid: 0
        self.on_open: Callable[[int, bool], None] = lambda cid, begin: None
        for c in sorted(components, key=lambda c: c.component_id):
            ch: Broadcast[Any] = Broadcast(name=f"api-data-{c.component_id}")
            self.chan[c.component_id] = ch
            self.tx[c.component_id] = ch.new_sender()

    async def components(self) -> set[Component]:
        if self.components_failures > 0:
            self.components_failures -= 1
            self.failure_times.append(self.sim.now_us)
            self.sim.fault("api_components_fails")
            raise FakeApiError("components() failed (fake API down)")
        return self._components

    async def connections(self, *a: Any, **k: Any) -> set[Connection]:
        return self._connections

    async def _rx(self, cid: int, maxsize: int) -> Any:
        # opening a component data stream may take time (it is an `async def` in the real client): the harness can
        # draw a delay per call and is told when the opening begins and ends
        delay_us = self.open_delay_fn(cid)
        if delay_us:
            self.sim.fault("api_stream_opening_slow")
            self.on_open(cid, True)
            try:
                await asyncio.sleep(delay_us / 1e6)
            finally:
                self.on_open(cid, False)
        self.receivers_created[cid] = self.receivers_created.get(cid, 0) + 1
        return self.chan[cid].new_receiver(limit=maxsize)

    async def battery_data(self, component_id: int, maxsize: int = 50) -> Any:
        return await self._rx(component_id, maxsize)

    async def inverter_data(self, component_id: int, maxsize: int = 50) -> Any:
        return await self._rx(component_id, maxsize)

    async def meter_data(self, component_id: int, maxsize: int = 50) -> Any:
        return await self._rx(component_id, maxsize)

    async def ev_charger_data(self, component_id: int, maxsize: int = 50) -> Any:
        return await self._rx(component_id, maxsize)

    def push(self, cid: int, msg: Any) -> None:
        """Deliver a data message now (called from an external event)."""
        self.sim.spawn(self.tx[cid].send(msg))

    async def set_power(self, component_id: int, power_w: float) -> None:
        kind, delay_us = self.outcome_fn(component_id, power_w)
        rec = {"ev": self.sim.evno, "t": self.sim.now_us, "cid": component_id, "w": power_w,
               "outcome": kind, "done": False}
        self.calls.append(rec)
        self.sim.ev("set_power", component_id, power_w, kind)
        if kind != "ok":
            self.sim.fault("api_" + kind)
        if kind == "hang":
            await asyncio.sleep(3600.0)
            return
        if delay_us:
            await asyncio.sleep(delay_us / 1e6)
        rec["done"] = True
        if kind == "ok":
            return
        if kind == "out_of_range":
            from frequenz.client.microgrid import OperationOutOfRange

            raise OperationOutOfRange(server_url="sim://", operation="set_power", grpc_error=_grpc_err())
        if kind == "api_error":
            raise FakeApiError()
        if kind == "unexpected":
            raise RuntimeError("unexpected fake failure")
        raise AssertionError(kind)


def _grpc_err() -> Any:
    import grpc.aio

    return grpc.aio.AioRpcError(
        code=grpc.StatusCode.OUT_OF_RANGE, initial_metadata=grpc.aio.Metadata(),
        trailing_metadata=grpc.aio.Metadata(), details="fake out of range", debug_error_string="",
    )


def install_connection_manager(api: FakeMicrogridApi) -> Any:
    from frequenz.sdk.microgrid import connection_manager
    from frequenz.sdk.microgrid.component_graph import _MicrogridComponentGraph

    graph = _MicrogridComponentGraph(api._components, api._connections)
    cm = types.SimpleNamespace(api_client=api, component_graph=graph, microgrid_id=1, location=None)
    connection_manager._CONNECTION_MANAGER = cm  # type: ignore[assignment]
    return cm


def battery_graph(groups: list[tuple[list[int], list[int]]]) -> tuple[set[Component], set[Connection]]:
    """Grid(1) - meter(2) - [inverters - batteries] per group; ids given by the caller."""
    comps = {Component(1, ComponentCategory.GRID), Component(2, ComponentCategory.METER)}
    conns = {Connection(1, 2)}
    for invs, bats in groups:
        for i in invs:
            comps.add(Component(i, ComponentCategory.INVERTER, InverterType.BATTERY))
            conns.add(Connection(2, i))
        for b in bats:
            comps.add(Component(b, ComponentCategory.BATTERY))
        for i in invs:
            for b in bats:
                conns.add(Connection(i, b))
    return comps, conns


def pv_graph(inv_ids: list[int]) -> tuple[set[Component], set[Connection]]:
    comps = {Component(1, ComponentCategory.GRID), Component(2, ComponentCategory.METER)}
    conns = {Connection(1, 2)}
    for i in inv_ids:
        comps.add(Component(i, ComponentCategory.INVERTER, InverterType.SOLAR))
        conns.add(Connection(2, i))
    return comps, conns
