#!/usr/bin/env python3
"""Rewrite DESIGN.md section 13.6 (seeded changes) from seeded/*/meta.json."""
import glob, json, os, re
VERIF = os.path.dirname(os.path.dirname(os.path.abspath(__file__)))
rows, first, late, other = [], 0, 0, 0
for d in sorted(glob.glob(os.path.join(VERIF, 'seeded', '*', 'meta.json'))):
    m = json.load(open(d))
    notes = m.get('needs_to_manifest', '')
    lines = [l.strip(' *#-') for l in notes.splitlines() if l.strip()]
    summ = (lines[0] if lines else '')[:120].replace('|', '/')
    det = m['check']['detected']
    also = m.get('also_run')
    if m.get('history'):
        if det:
            how = 'after strengthening'; late += 1
        else:
            how = f"not by its own check; by `{also['cmd'].split(' --')[0]}`" if also and also['detected'] else 'NO'; other += 1
    else:
        how = 'yes'; first += 1
    clauses = ', '.join(m['check']['violation_clauses']) or (', '.join(also['violation_clauses']) if also else '')
    rows.append(f"| {m['seed_id']} | {summ} | {clauses} | {how} |")
table = "\n".join(["| seeded change | what it does (first line of the author's notes) | clauses that fire | caught at first attempt |", "|---|---|---|---|"] + rows)
hist = []
for d in sorted(glob.glob(os.path.join(VERIF, 'seeded', '*', 'meta.json'))):
    m = json.load(open(d))
    if m.get('history'):
        hist.append(f"* **{m['seed_id']}**: {m['history']}")
text = f'''### 13.6 Seeded breaking changes (independent sub-agents) and which checks catch them

Four waves of fresh sub-agents (14 each, one per claimed property) were given only the text of one property
and a scratch worktree of /repo, and asked for two realistic changes each that break the property while the
existing 332 tests still pass, with a demonstration.  Wave 2 was told wave 1's mechanisms and asked for narrower,
harder-to-notice breakage; wave 3 was told all four earlier ones and pointed at configurations, second
occurrences, error-then-recovery paths and same-instant orderings; wave 4 was told all six earlier mechanisms of its
property and asked for something different again (dynamic multi-step histories, unusual-but-legal configurations).
Every change was confirmed by
`tools/try_seed.py` in a fresh scratch worktree (demo passes on the unchanged tree, fails with the patch, `tests`
still 332 passed), then applied to /repo, the property's quick check run, and /repo restored.  Everything is under
`seeded/<id>/` (patch.diff, demo, notes.md, meta.json with what was run and, where applicable, `history`).

Result: {len(rows)} changes, all confirmed; **{first} caught at the first attempt, {late} missed at first and caught
after the check was strengthened, {other} caught only by the check of the neighbouring property that owns the
changed code** (wave 1: 27/28 at first attempt, wave 2: 21/28, wave 3: 17/28, wave 4: 20/28 - the later waves were aimed at
what the earlier ones had not touched; for wave 4 "first attempt" is measured with the harness as it stood when
the changes arrived, i.e. before the four strengthenings written from the authors' summaries).  One wave-4 change
(`seeded/_rejected/C04-w4b-outside-quantifier`) was rejected, not counted, and replaced by its author: its
demonstration needs a proposal set that is not conflict-free, which C04's quantifier excludes - the check was
rightly silent there and was not extended beyond the property.  What was added for each miss:

''' + "\n".join(hist) + '''

''' + table + '''

A cross run of every check against every first-wave change (`tools/cross_matrix.py`, on a snapshot) was used as
a false-alarm probe: the matrix is diagonal - checks of other properties fire only where the change really
affects them too (C03-a and C11-b are the same edit and trip both C03 and C11).

'''
s = open(os.path.join(VERIF, 'DESIGN.md')).read()
a = s.index('### 13.6 Seeded breaking changes')
b = s.index('### 13.7 Benign-change probe')
open(os.path.join(VERIF, 'DESIGN.md'), 'w').write(s[:a] + text + s[b:])
print(len(rows), first, late, other)
