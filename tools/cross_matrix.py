#!/usr/bin/env python3
"""Run every check against every seeded change (on a snapshot of /repo: `vp run --with-repo`).

Purpose: (1) which checks catch which changes, (2) a false-alarm probe - a check that fires on a change to code
its property does not depend on needs a look.  Results are not evidence; they are summarised in DESIGN.md.
"""
import glob
import json
import os
import re
import subprocess
import sys

VERIF = os.path.dirname(os.path.dirname(os.path.abspath(__file__)))
REPO = os.environ.get("VP_RUN_REPO")
assert REPO and REPO != "/repo", "run me with: vp run --with-repo -- python3 tools/cross_matrix.py"
IDS = ["C03", "C04", "C06", "C07", "C08", "C09", "C10", "C11", "C13", "C14", "C15", "C16", "C19", "C20"]
env = dict(os.environ, VERIF_REPO_SRC=f"{REPO}/src")
div = int(sys.argv[1]) if len(sys.argv) > 1 else 3
out = {}
for d in sorted(glob.glob(os.path.join(VERIF, "seeded", "*"))):
    sid = os.path.basename(d)
    subprocess.run(["git", "-C", REPO, "checkout", "--", "."], check=True)
    r = subprocess.run(["git", "-C", REPO, "apply", os.path.join(d, "patch.diff")], capture_output=True, text=True)
    if r.returncode:
        out[sid] = {"error": r.stderr[-300:]}
        continue
    row = {}
    for pid in IDS:
        mod = open(os.path.join(VERIF, "props", pid.lower() + ".py")).read()
        runs = int(re.search(r"QUICK_RUNS = (\d+)", mod).group(1)) // div
        p = subprocess.run(["./check", pid, "--runs", str(runs), "--no-evidence"], cwd=VERIF, env=env,
                           capture_output=True, text=True, timeout=3000)
        row[pid] = {"exit": p.returncode, "clauses": sorted(set(re.findall(r"clause=(\S+)", p.stdout)))}
    out[sid] = row
    print(sid, {k: (v["exit"], v["clauses"]) for k, v in row.items() if v["exit"]}, flush=True)
subprocess.run(["git", "-C", REPO, "checkout", "--", "."], check=True)
json.dump(out, open(os.path.join(VERIF, "cross_matrix.json"), "w"), indent=1)
print("MATRIX-DONE")
