#!/usr/bin/env python3
"""Which lines of the code a property is anchored in does its harness actually execute?

usage: tools/sut_coverage.py <PROPERTY> [runs=300] [--show]

Runs `runs` seeds of the property's scenario in this process under coverage.py (branch coverage, restricted to the
files named in the property's anchors plus any extra module given with --also=<path fragment>) and prints, per
file, the executable lines that were never executed.  A reach measure for the harness (like the probes), used to
find legal behaviour the generators never produce; not evidence.
"""
import json
import os
import sys

VERIF = os.path.dirname(os.path.dirname(os.path.abspath(__file__)))
REPO_SRC = os.environ.get("VERIF_REPO_SRC", "/repo/src")


def main() -> int:
    pid = sys.argv[1].upper()
    nums = [a for a in sys.argv[2:] if a.isdigit()]
    runs = int(nums[0]) if nums else 300
    show = "--show" in sys.argv
    also = [a.split("=", 1)[1] for a in sys.argv if a.startswith("--also=")]
    props = {json.loads(l)["id"]: json.loads(l) for l in open(os.path.join(VERIF, "properties.jsonl"))}
    files = [os.path.join(os.path.dirname(REPO_SRC), f) for f in props[pid]["anchors"]["files"]]
    sys.path[:0] = [VERIF, REPO_SRC]
    import coverage

    cov = coverage.Coverage(include=files + [f"*{a}*" for a in also], branch=True, data_file=None)
    from sim import env

    env.import_sdk()
    from sim.runner import derive_seed, load_prop

    mod = load_prop(pid)
    cov.start()
    bad = 0
    for i in range(runs):
        r = env.run_seed(mod.scenario, derive_seed(4242, pid, i))
        bad += r["status"] not in ("ok",) and not all(v.get("known") for v in r.get("violations", [])) and r["status"] == "harness_error"
    cov.stop()
    print(f"{pid}: {runs} runs, harness errors {bad}")
    data = cov.get_data()
    for f in sorted(data.measured_files()):
        an = cov.analysis2(f)
        executable, missing = an[1], an[3]
        src = open(f, encoding="utf-8").read().splitlines()
        # only lines inside function bodies (module level / class bodies ran at import time, before coverage started)
        import ast

        inside: set[int] = set()
        for node in ast.walk(ast.parse("\n".join(src))):
            if isinstance(node, (ast.FunctionDef, ast.AsyncFunctionDef)):
                body = node.body
                if body and isinstance(body[0], ast.Expr) and isinstance(getattr(body[0], "value", None), ast.Constant) \
                        and isinstance(body[0].value.value, str):
                    body = body[1:]
                for st in body:
                    inside.update(range(st.lineno, (st.end_lineno or st.lineno) + 1))
        interesting = [ln for ln in missing if ln in inside]
        print(f"--- {os.path.relpath(f, REPO_SRC)}: {len(executable) - len(missing)}/{len(executable)} executable lines hit; "
              f"{len(interesting)} never executed inside functions")
        if show:
            prev = None
            for ln in interesting:
                if prev is not None and ln != prev + 1:
                    print("      ...")
                print(f"  {ln:5d}  {src[ln - 1][:150]}")
                prev = ln
    return 0


if __name__ == "__main__":
    sys.exit(main())
