#!/usr/bin/env python3
"""Regression of the checks against every kept seeded change and every benign change.

usage: tools/regress_seeds.py [--repo DIR] [--only PREFIX] [--benign-only|--seeded-only]

Meant for `vp run --with-repo -- python3 tools/regress_seeds.py`: patches are applied to the snapshot of /repo
($VP_RUN_REPO), never to /repo itself, and the checks read the SDK from there (VERIF_REPO_SRC).  For every
seeded/<id> the property's quick check must exit 1 (for the changes that only the neighbouring property's check
catches, the check recorded in meta.json `also_run` is used); for every benign/<id> it must exit 0.  Nothing is
written; the summary goes to stdout.  Not evidence - a regression test of the harnesses themselves.
"""
import glob
import json
import os
import re
import subprocess
import sys
import time

VERIF = os.path.dirname(os.path.dirname(os.path.abspath(__file__)))


def sh(cmd: str, cwd: str | None = None, env: dict | None = None, timeout: int = 2400) -> tuple[int, str]:
    p = subprocess.run(cmd, shell=True, cwd=cwd, env=env, text=True, capture_output=True, timeout=timeout)
    return p.returncode, p.stdout + p.stderr


def main() -> int:
    args = sys.argv[1:]
    repo = os.environ.get("VP_RUN_REPO", "")
    if "--repo" in args:
        repo = args[args.index("--repo") + 1]
    assert repo and os.path.realpath(repo) != "/repo", "give a scratch copy of /repo (vp run --with-repo), never /repo itself"
    only = args[args.index("--only") + 1] if "--only" in args else ""
    env = dict(os.environ, VERIF_REPO_SRC=os.path.join(repo, "src"))
    jobs = []
    if "--benign-only" not in args:
        for d in sorted(glob.glob(os.path.join(VERIF, "seeded", "*", "meta.json"))):
            m = json.load(open(d))
            pid = m["property"]
            if m.get("also_run") and not m["check"]["detected"]:
                pid = re.search(r"check (C\d+)", m["also_run"]["cmd"]).group(1)  # type: ignore[union-attr]
            jobs.append((m["seed_id"], pid, os.path.join(os.path.dirname(d), "patch.diff"), 1))
    if "--seeded-only" not in args:
        for d in sorted(glob.glob(os.path.join(VERIF, "benign", "*", "meta.json"))):
            m = json.load(open(d))
            jobs.append(("benign/" + os.path.basename(os.path.dirname(d)), m["property"], os.path.join(os.path.dirname(d), "patch.diff"), 0))
    bad = 0
    for name, pid, patch, want in jobs:
        if only and not name.replace("benign/", "").startswith(only):
            continue
        rc, out = sh(f"git -C {repo} status --porcelain")
        assert out.strip() == "", f"{repo} not clean: {out}"
        rc, out = sh(f"git -C {repo} apply {patch}")
        if rc != 0:
            print(f"{name:28s} {pid}  patch no longer applies on this HEAD: {out.strip()[:120]}", flush=True)
            continue
        t0 = time.time()
        try:
            rcc, outc = sh(f"timeout 1700 ./check {pid} --tier quick --no-evidence", cwd=VERIF, env=env)
        finally:
            sh(f"git -C {repo} checkout -- .")
        clauses = sorted(set(re.findall(r"clause=(\S+)", outc)))
        ok = rcc == want
        bad += not ok
        print(f"{name:28s} {pid}  exit={rcc} want={want} {'ok' if ok else 'REGRESSION'} {time.time() - t0:5.1f}s {','.join(clauses)}", flush=True)
    print(f"regress_seeds: {len(jobs)} changes, {bad} regressions")
    return 1 if bad else 0


if __name__ == "__main__":
    sys.exit(main())
