#!/bin/sh
# Background soak: thorough tier of every check against a snapshot of /repo (vp run --with-repo),
# so that /repo itself stays free for seeded-change experiments.  Results are NOT evidence.
export VERIF_REPO_SRC="${VP_RUN_REPO:-/repo}/src"
for p in "$@"; do
  ./check "$p" --tier thorough 2>&1 | grep -E "^(VIOLATION|HARNESS-ERROR|KNOWN-FINDING|\[C|  clause=|  detail=|  minimised|  unreached)" | cut -c1-700
done
