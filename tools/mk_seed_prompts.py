#!/usr/bin/env python3
"""Write the task files for a wave of seeding sub-agents (breaking changes).

usage: tools/mk_seed_prompts.py <wave no> <outdir> <worktree dir> [IDs...]

For every claimed property: creates a scratch worktree <worktree dir>/<ID> of /repo HEAD and writes
<outdir>/<ID>/prompt.txt.  The prompt contains only the property's text (from properties.jsonl), working
instructions, and one-line summaries of the changes earlier waves produced for that property (their authors'
own first lines) so that they are not repeated.  Nothing about the checks, harnesses or /verif is given.
"""
import glob
import json
import os
import subprocess
import sys

VERIF = os.path.dirname(os.path.dirname(os.path.abspath(__file__)))
CLAIMED = ["C03", "C04", "C06", "C07", "C08", "C09", "C10", "C11", "C13", "C14", "C15", "C16", "C19", "C20"]

STRATEGY = {
    5: """* Find something genuinely different.  Strategy for this round - pick TWO DIFFERENT ones of these angles:
  (1) a second instance / second cycle: state that survives stop()+start(), a second subscription or second object sharing something (a cache, a class attribute, a default argument, a channel) with the first;
  (2) value-domain corners the statement covers but code tends to forget: zero, negative zero, equal values, values exactly on a boundary, very large or very small magnitudes, fractional seconds, periods that are not whole seconds, empty collections, a single element, None vs 0 vs NaN, time zones other than UTC;
  (3) a window between two awaits: something that is only wrong if another task runs (or a message arrives, or a timer fires) between two particular statements, or if two events are handled in the same event-loop iteration;
  (4) an error/slow path followed by recovery: the first failure is handled right, but what is left behind (a flag, a counter, a stale cached value, a timer, a task reference) makes a LATER, ordinary operation wrong;
  (5) an innocent-looking refactoring of a helper used by the anchored code (sorting key, comparison, rounding, default parameter, dataclass equality/hash, set vs list, `or` on a value that can legitimately be 0).
  A good change survives code review ("looks equivalent") and needs a specific scenario to show.""",
    6: """* Find something genuinely different.  Strategy for this round - pick TWO DIFFERENT ones of these angles:
  (1) sibling code paths: the behaviour the property describes is usually implemented in several parallel places (one per component category, per formula generator, per container type, per metric, per phase, object-level API vs actor-level API, first call vs later calls) - break only ONE sibling, preferably the least used one, and leave the others intact;
  (2) branches the existing tests never execute: find them (e.g. `cd <worktree> && PYTHONPATH=<worktree>/src /venv/bin/python -m trace --count --missing --coverdir=/tmp/<your dir>/cov -m pytest -q -p no:cacheprovider tests/<relevant dir>` and look at lines marked `>>>>>>` in the .cover files of the anchored modules, or temporarily put `raise AssertionError` into a branch and see whether any test fails) and break the property inside a legal-but-untested branch;
  (3) configuration: a non-default value of a constructor/config parameter that the property's quantifier covers (periods, ages, buffer sizes, restart limits and delays, timeouts, priorities, flags such as set_operating_point / adjust_power / nones_are_zeros / allow_fallback, distribution parameters) - correct for the default, wrong for another legal value;
  (4) scale and long runs: something that only goes wrong with many elements (tens of series / actors / components / subscriptions / proposals), after a long history (hundreds of operations, a counter that grows, a buffer that fills, a cache that evicts) or with large magnitudes (timestamps years away, megawatts, week-long durations);
  (5) two independent features used together that each work alone (e.g. exclusion bounds AND operating point, fallback AND composition, removal AND re-adding, stop AND restart, duplicate request AND hand-over).
  A good change survives code review ("looks equivalent") and needs a specific scenario to show.""",
    7: """* Find something genuinely different from ALL of the above.  Strategy for this round - pick TWO DIFFERENT ones of these angles:
  (1) liveness instead of safety: nothing wrong is ever emitted, but under a specific legal schedule something the property promises simply never happens again (a task that ends silently, a future that is never resolved, a queue that is no longer drained, a flag that is never cleared, a timer that is never re-armed) - the system must not raise or log at ERROR level on the way;
  (2) ordering between two outputs of the same component (two channels, a channel and a getter, a notification and the state it describes, a result and a status update) - each output alone stays correct, but an observer that looks at both sees a combination the property forbids;
  (3) a change confined to a dependency-facing seam: how the code uses asyncio (gather/wait/wait_for/shield/TaskGroup/timeouts/cancellation), frequenz.channels (receiver limits, `resend_latest`, select, Timer policies, closing), datetime/timedelta arithmetic, float comparisons (`==`, `is_close_to_zero`, rounding), or containers (dict order, set, deque maxlen, bisect keys);
  (4) "fixing" something that looks like a bug but is load-bearing: an apparently redundant check, re-computation, copy, sort, `await asyncio.sleep(0)`, second lookup or defensive `if` that a tidy-minded developer would remove;
  (5) a difference between the FIRST use and LATER uses of the same object (first tick / first sample / first request / first failure vs the n-th), or between an object that was ever stopped/removed/expired and one that never was.
  A good change survives code review ("looks equivalent") and needs a specific scenario to show.""",
}


def sh(cmd: str) -> str:
    return subprocess.run(cmd, shell=True, text=True, capture_output=True).stdout


def main() -> int:
    wave, out, wt = int(sys.argv[1]), sys.argv[2], sys.argv[3]
    ids = sys.argv[4:] or CLAIMED
    props = {json.loads(l)["id"]: json.loads(l) for l in open(os.path.join(VERIF, "properties.jsonl"))}
    ordinal = {2: "SECOND", 3: "THIRD", 4: "FOURTH", 5: "FIFTH", 6: "SIXTH"}.get(wave, f"{wave}th")
    for pid in ids:
        p = props[pid]
        earlier = []
        for d in sorted(glob.glob(os.path.join(VERIF, "seeded", f"{pid}-*", "notes.md"))):
            lines = [l.strip() for l in open(d, encoding="utf-8").read().splitlines() if l.strip()]
            earlier.append("  - " + " ".join(lines[:3])[:260])
        wtd = os.path.join(wt, pid)
        od = os.path.join(out, pid)
        os.makedirs(od, exist_ok=True)
        sh(f"git -C /repo worktree remove --force {wtd} 2>/dev/null; git -C /repo worktree add --detach {wtd} HEAD")
        assert os.path.isdir(os.path.join(wtd, "src")), wtd
        text = f"""You are helping to evaluate a verification effort for the open-source Python project frequenz-floss/frequenz-sdk-python (an asyncio SDK for energy microgrids). You have your own scratch git worktree of the repository at {wtd} (detached HEAD; work ONLY there; never touch /repo or /verif, never read anything under /verif).

Below is one semantic property the code base is supposed to satisfy. Your job: produce TWO different, realistic source changes (call them "a" and "b", different mechanisms) to the library code under {wtd}/src that BREAK this property while (1) the code still imports/compiles and (2) the repository's existing test suite still passes. Think of the kind of plausible regression a developer could introduce in a refactoring or "optimisation" - not sabotage that ordinary use would expose at once. Prefer changes that need something specific to manifest: a particular interleaving or timing, a fault at a particular point, a multi-step sequence of operations, an unusual-but-legal input, or two cooperating sites that each look fine alone.

PROPERTY {pid}: {p['title']}
Statement: {p['statement']}
Quantified over: {p['quantifier']['text']}
Why the existing tests cannot settle it: {p['why_tests_cant']}
Code the property is anchored in: {', '.join(p['anchors']['files'])}

How to work:
* Python to use: /venv/bin/python. IMPORTANT: the venv has the repo installed in editable mode pointing at /repo/src, so ALWAYS run with PYTHONPATH={wtd}/src (e.g. `cd {wtd} && PYTHONPATH={wtd}/src /venv/bin/python -m pytest -q -p no:cacheprovider tests -x -q`) and check that `frequenz.sdk.__file__` starts with {wtd}/src. The full `tests` directory takes about 25 s; all of it must still pass with each change applied (run it; 332 tests pass on the unchanged tree; doctest items under src/ fail on the unchanged tree already - ignore those, run only the `tests` directory). There is no network.
* For each change write a small self-contained demonstration program (plain Python script using asyncio if needed, or a pytest test file) that FAILS (non-zero exit / failing assertion) with the change applied and PASSES on the unchanged tree. Run it both ways yourself and report what you observed. The demo must import the library via PYTHONPATH (do not hard-code the path inside the demo; the person reproducing will set PYTHONPATH themselves). The demo must be deterministic (same outcome on every run) and finish within a minute.
* Deliverables, written to {od}/a/ and {od}/b/ :  patch.diff (output of `git diff` in the worktree, with ONLY that change applied, applying cleanly with `git apply` to the unchanged tree), demo.py (or test_demo.py), and notes.md (3-10 lines: what the change does, which part of the property it breaks, what exactly is needed for it to manifest, the commands you ran and their outcomes).
* Leave the worktree clean (git checkout -- . ; no untracked files) when you are done. Keep each change small (a few lines). Do not modify tests. Do not add new dependencies.
* Changes that merely raise an exception on the first call, or that break the existing tests, are not useful. Two changes that are variations of the same one-line edit are not useful either.
* Do NOT use `git stash` (it is shared between worktrees).  To switch between changed and unchanged tree use: `git diff > {od}/<name>.diff; git checkout -- .; ... ; git apply {od}/<name>.diff`.

Finish with a short summary (5-15 lines) of the two changes and your evidence.

ADDITIONAL INSTRUCTIONS FOR THIS ROUND
* This is a {ordinal} round.  {len(earlier)} changes were already produced for this property; do NOT repeat them or close variants.  Their summaries:
{chr(10).join(earlier)}
{STRATEGY.get(wave, STRATEGY[5])}
* Keep the violation squarely inside the property as stated - its statement AND its "Quantified over" text: the scenario of the demo must be one the quantifier covers (if the property is stated only for a restricted class of inputs, e.g. "conflict-free" or "time-ordered", stay inside that class), and the demo must show observable behaviour that contradicts the statement.
"""
        with open(os.path.join(od, "prompt.txt"), "w", encoding="utf-8") as f:
            f.write(text)
        print(pid, len(earlier), "earlier changes;", os.path.join(od, "prompt.txt"))
    return 0


if __name__ == "__main__":
    sys.exit(main())
