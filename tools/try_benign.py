#!/usr/bin/env python3
"""False-alarm probe: run a property's check against a change that is claimed NOT to break the property.

usage: tools/try_benign.py <PROPERTY> <src dir with patch.diff + notes.md> <id>
Applies the patch to /repo (git apply), runs the quick check with two seeds, restores /repo, records the result in
/verif/benign/<id>/meta.json.  The existing tests are run with the patch in a scratch worktree first.
"""
import json, os, re, shutil, subprocess, sys, time
VERIF = os.path.dirname(os.path.dirname(os.path.abspath(__file__)))

def sh(cmd, cwd=None, env=None, timeout=2400):
    p = subprocess.run(cmd, shell=True, cwd=cwd, env=env, text=True, capture_output=True, timeout=timeout)
    return p.returncode, p.stdout + p.stderr

pid, src, bid = sys.argv[1:4]
patch = os.path.join(src, "patch.diff")
wt = f"/tmp/wt/verify_{bid}"
sh(f"git -C /repo worktree remove --force {wt}"); sh("git -C /repo worktree prune")
rc, out = sh(f"git -C /repo worktree add --detach {wt} HEAD"); assert rc == 0, out
meta = {"property": pid, "id": bid}
try:
    rca, outa = sh(f"git apply {patch}", cwd=wt)
    meta["patch_applies"] = rca == 0
    env = dict(os.environ, PYTHONPATH=f"{wt}/src", PYTHONDONTWRITEBYTECODE="1")
    rct, outt = sh("timeout 1500 /venv/bin/python -m pytest -q -p no:cacheprovider --timeout=900 tests 2>&1 | tail -3", cwd=wt, env=env)
    m = re.search(r"(\d+) passed", outt)
    meta["existing_tests_with_change"] = {"passed": int(m.group(1)) if m else 0, "failed": " failed" in outt}
finally:
    sh(f"git -C /repo worktree remove --force {wt}")
rc, out = sh("git -C /repo status --porcelain"); assert out.strip() == "", out
runs = []
try:
    rc, out = sh(f"git -C /repo apply {patch}"); assert rc == 0, out
    for seed in (20241001, 1):
        t0 = time.time()
        rcc, outc = sh(f"VERIF_SEED={seed} timeout 1700 ./check {pid} --tier quick --no-evidence", cwd=VERIF)
        runs.append({"seed": seed, "exit": rcc, "wall_s": round(time.time() - t0, 1),
                     "clauses": sorted(set(re.findall(r"clause=(\S+)", outc))),
                     "detail": next((l.strip() for l in outc.splitlines() if l.strip().startswith("detail=")), "")[:500],
                     "harness": next((l for l in outc.splitlines() if "HARNESS-ERROR" in l), "")[:300]})
finally:
    sh("git -C /repo checkout -- .")
meta["check_runs"] = runs
meta["quiet"] = all(r["exit"] == 0 for r in runs)
dst = os.path.join(VERIF, "benign", bid); os.makedirs(dst, exist_ok=True)
shutil.copy(patch, os.path.join(dst, "patch.diff"))
if os.path.exists(os.path.join(src, "notes.md")):
    shutil.copy(os.path.join(src, "notes.md"), os.path.join(dst, "notes.md"))
json.dump(meta, open(os.path.join(dst, "meta.json"), "w"), indent=1)
print(json.dumps({"id": bid, "tests": meta["existing_tests_with_change"], "quiet": meta["quiet"],
                  "exits": [r["exit"] for r in runs], "clauses": sorted({c for r in runs for c in r["clauses"]})}))
