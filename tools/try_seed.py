#!/usr/bin/env python3
"""Confirm a seeded breaking change and run the property's check against it.

usage: tools/try_seed.py <PROPERTY> <src dir with patch.diff + demo.py|test_demo.py + notes.md> <seed id> [--runs N]

1. scratch worktree of /repo HEAD (outside /repo and /verif): the demo must PASS on the unchanged tree,
   FAIL with the patch, and the repository's `tests` directory must still pass with the patch;
2. the patch is applied to /repo itself (git apply), the property's quick check is run (no evidence
   written), and /repo is restored (git checkout -- .) straight afterwards;
3. everything is recorded in /verif/seeded/<seed id>/meta.json next to a copy of the patch and demo.
"""
import json
import os
import re
import shutil
import subprocess
import sys
import time

VERIF = os.path.dirname(os.path.dirname(os.path.abspath(__file__)))


def sh(cmd: str, cwd: str | None = None, env: dict | None = None, timeout: int = 1800) -> tuple[int, str]:
    p = subprocess.run(cmd, shell=True, cwd=cwd, env=env, text=True, capture_output=True, timeout=timeout)
    return p.returncode, (p.stdout + p.stderr)


def main() -> int:
    pid, src, sid = sys.argv[1], sys.argv[2], sys.argv[3]
    runs = None
    if "--runs" in sys.argv:
        runs = sys.argv[sys.argv.index("--runs") + 1]
    patch = os.path.join(src, "patch.diff")
    demo = next((os.path.join(src, n) for n in ("demo.py", "test_demo.py") if os.path.exists(os.path.join(src, n))), None)
    assert os.path.exists(patch) and demo, "need patch.diff and demo.py/test_demo.py"
    wt = f"/tmp/wt/verify_{sid}"
    sh(f"git -C /repo worktree remove --force {wt}")
    rc, out = sh(f"git -C /repo worktree add --detach {wt} HEAD")
    assert rc == 0, out
    env = dict(os.environ, PYTHONPATH=f"{wt}/src", PYTHONDONTWRITEBYTECODE="1")
    is_pytest = os.path.basename(demo).startswith("test_")
    demo_cmd = (f"/venv/bin/python -m pytest -q -p no:cacheprovider {demo}" if is_pytest else f"/venv/bin/python {demo}")
    meta: dict = {"property": pid, "seed_id": sid, "source": src, "demo_cmd": demo_cmd.replace(src, "<this dir>")}
    try:
        rc0, out0 = sh(f"timeout 600 {demo_cmd}", cwd=wt, env=env)
        meta["demo_on_unchanged_tree"] = {"exit": rc0, "tail": out0[-400:]}
        rca, outa = sh(f"git apply {patch}", cwd=wt)
        meta["patch_applies"] = rca == 0
        if rca != 0:
            meta["apply_error"] = outa[-500:]
        rc1, out1 = sh(f"timeout 600 {demo_cmd}", cwd=wt, env=env)
        meta["demo_with_change"] = {"exit": rc1, "tail": out1[-600:]}
        rct, outt = sh("timeout 1500 /venv/bin/python -m pytest -q -p no:cacheprovider --timeout=900 tests 2>&1 | tail -3", cwd=wt, env=env)
        m = re.search(r"(\d+) passed", outt)
        meta["existing_tests_with_change"] = {"summary": outt.strip().splitlines()[-1] if outt.strip() else "",
                                              "passed": int(m.group(1)) if m else 0, "failed": " failed" in outt}
    finally:
        sh(f"git -C /repo worktree remove --force {wt}")
    confirmed = (meta["demo_on_unchanged_tree"]["exit"] == 0 and meta.get("patch_applies") and
                 meta["demo_with_change"]["exit"] != 0 and meta["existing_tests_with_change"]["passed"] >= 332
                 and not meta["existing_tests_with_change"]["failed"])
    meta["confirmed"] = bool(confirmed)
    # ---- run the check against /repo with the change applied
    rc, out = sh("git -C /repo status --porcelain")
    assert out.strip() == "", f"/repo not clean: {out}"
    t0 = time.time()
    try:
        rc, out = sh(f"git -C /repo apply {patch}")
        assert rc == 0, out
        cmd = f"./check {pid} --tier quick --no-evidence" + (f" --runs {runs}" if runs else "")
        rcc, outc = sh(f"timeout 1700 {cmd}", cwd=VERIF)
    finally:
        sh("git -C /repo checkout -- .")
    rc, out = sh("git -C /repo status --porcelain")
    assert out.strip() == "", f"/repo not restored: {out}"
    clauses = sorted(set(re.findall(r"clause=(\S+)", outc)))
    meta["check"] = {"cmd": cmd, "exit": rcc, "wall_s": round(time.time() - t0, 1), "violation_clauses": clauses,
                     "detected": rcc == 1 and "VIOLATION property=" in outc,
                     "summary": [ln for ln in outc.splitlines() if ln.startswith("[")][-1:],
                     "first_detail": next((ln.strip() for ln in outc.splitlines() if ln.strip().startswith("detail=")), "")[:600]}
    dst = os.path.join(VERIF, "seeded", sid)
    os.makedirs(dst, exist_ok=True)
    shutil.copy(patch, os.path.join(dst, "patch.diff"))
    shutil.copy(demo, os.path.join(dst, os.path.basename(demo)))
    if os.path.exists(os.path.join(src, "notes.md")):
        shutil.copy(os.path.join(src, "notes.md"), os.path.join(dst, "notes.md"))
        meta["needs_to_manifest"] = open(os.path.join(src, "notes.md"), encoding="utf-8").read()[:1500]
    with open(os.path.join(dst, "meta.json"), "w", encoding="utf-8") as f:
        json.dump(meta, f, indent=1)
    print(json.dumps({k: meta[k] for k in ("seed_id", "confirmed")} | {"detected": meta["check"]["detected"],
                                                                       "exit": rcc, "clauses": clauses}, indent=None))
    return 0


if __name__ == "__main__":
    sys.exit(main())
