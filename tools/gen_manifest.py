#!/usr/bin/env python3
"""Regenerate MANIFEST.json from the property modules that exist under props/."""
import json
import os

VERIF = os.path.dirname(os.path.dirname(os.path.abspath(__file__)))

CLAIMS = {
    "C03": ("§6 C03", "seeded search over proposal/bounds/expiry histories (object level and through the real PowerManagingActor on the simulated loop); envelope invariant + refinement against a fresh instance fed only the live set"),
    "C04": ("§6 C04", "same simulated histories restricted to conflict-free proposal sets; reference model of the priority sweep, report/adoption relation, null-proposal differential"),
    "C06": ("§6 C06", "seeded search over delivery interleavings (per-stream lag, staggered starts, late consumer) of the real formula engine; consecutive-timestamp invariant + differential against the lock-step schedule"),
    "C07": ("§6 C07", "seeded search over timer lateness, sink latency, creation phase and series added while running, real Resampler + Timer on the virtual clock; exact-microsecond timeline arithmetic"),
    "C08": ("§6 C08", "seeded search over arrival patterns (future/boundary stamps, bursts, silences, buffer knobs); recorded arguments of the resampling function compared with a reference window model"),
    "C09": ("§6 C09", "seeded search over update histories passed through a lossy/duplicating/reordering/jumping transport and over query instants; slot-map reference model"),
    "C10": ("§6 C10", "seeded search over outcome sequences, fault placement at every await point and start/stop/cancel/wait instants (incl. during the restart delay); invariants over enter/exit/outcome events"),
    "C11": ("§6 C11", "seeded search over interleavings of regular/operating-point proposals, bounds updates, results and expiry through the real PowerManagingActor; request == sum of reported targets, inside latest bounds"),
    "C13": ("§6 C13", "seeded search over per-(stream,timestamp) corruption (None/NaN/+-inf), zero divisors, nones_are_zeros settings and delivery schedules; None-iff rule, one sample per timestamp, zero-equivalence differential"),
    "C14": ("§6 C14", "seeded search over arrival/completion races per component group through the real PowerDistributingActor with failing distributions; mutual exclusion, subsequence/latest-wins, applied-when-idle invariants"),
    "C15": ("§6 C15", "seeded search over per-call API outcomes (success, out-of-range, client error, unexpected exception, timeout) through the real distributor stack (battery and PV) on the simulated loop; accounting identity vs recorded set_power calls"),
    "C16": ("§6 C16", "seeded search over message/silence/result sequences with exact boundary instants and select-branch races through the real status trackers; safety invariants at idle points, back-off sequence"),
    "C19": ("§6 C19", "seeded search over valid/missing/closed primary streams and fallback lag through the real PVPowerFormula/fallback fetcher; exact-sum oracle after a bounded start-up window"),
    "C20": ("§6 C20", "seeded search over subscription instants vs data messages, duplicates and unknown ids through the real DataSourcingActor; contiguous exactly-once runs per subscription"),
}

NA = {
    "C01": "pure function of its input (BatteryDistributionAlgorithm.distribute_power): no schedule, clock, fault or interleaving can change the outcome, so deterministic simulation has nothing to decide; what happens to the set-points under per-call API outcomes (succeeded / failed / excess accounting) is decided under C15; the equality of commanded and reported power in C01's last sentence is arithmetic of that function and is NOT decided here (C15's evidence only counts, as a probe, how often the commanded set-points differ from the reported numbers - DESIGN 13.3)",
    "C02": "pure function of its input (same distribution algorithm, bound safety of the returned dict); quantified over inputs/configurations only - not a simulation target",
    "C05": "compiler-correctness statement over expression programs and values (infix->postfix + stack evaluation); the engine's asynchrony is irrelevant to it (alignment is C06, missing values C13)",
    "C12": "deterministic graph algorithm over a static component graph, quantified over topologies and power assignments; no concurrency, time or I/O for the property to depend on",
    "C17": "explicitly 'for the same complete component data': a relation between two pure aggregations (PowerBoundsCalculator.calculate vs BatteryManager._get_bounds/_check_request); no schedule or fault in the quantifier",
    "C18": "SoCCalculator/CapacityCalculator.calculate on a given metrics dict and working set: range, monotonicity and scale invariance of a pure function",
}

PENDING_REASON = "claimed in DESIGN.md with deterministic simulation; harness not committed yet (work in progress)"


def main() -> None:
    checks = []
    pending = []
    for pid, (ref, text) in sorted(CLAIMS.items()):
        if not os.path.exists(os.path.join(VERIF, "props", pid.lower() + ".py")):
            pending.append(pid)
            continue
        checks.append({
            "property_id": pid,
            "quick_cmd": f"./check {pid} --tier quick",
            "thorough_cmd": f"./check {pid} --tier thorough",
            "evidence_file": f"evidence/{pid}.json",
            "replay_cmd_template": f"./check {pid} --replay {{path}}",
            "engine": "sim",
            "level_claimed": {
                "category": "exploration",
                "text": text + ". Sampling of schedules and fault sequences, not enumeration: a clean batch is evidence that the property holds on the explored executions, and any failure comes with a seed and a minimised, exactly replayable choice tape.",
                "design_ref": ref,
            },
            "level_note": "Trusted: CPython asyncio semantics as re-implemented by SimLoop (FIFO ready queue, iteration batching), frequenz.channels (runs real, assumed reliable FIFO), time_machine as wall-clock seam, the oracle/reference model of the property module. The gRPC client below the api_client interface is replaced by a fake and not exercised.",
            "technique": "deterministic simulation with fault injection (virtual-time asyncio loop, seeded schedule/fault search, tape minimisation and replay)",
        })
    na = [{"property_id": k, "reason": v} for k, v in sorted(NA.items())]
    na += [{"property_id": k, "reason": PENDING_REASON} for k in pending]
    man = {
        "version": 1,
        "setup_cmd": "/venv/bin/python -c \"import time_machine, frequenz.channels, numpy; print('setup ok')\"",
        "hooks": {
            "guard": "FREQUENZ_SDK_VERIF",
            "enable": "no hooks were needed: all seams (event loop, connection_manager._CONNECTION_MANAGER, channels, ResamplerConfig.resampling_function, module attributes asyncio.wait / _background_service.set / _data_pipeline.new_battery_pool) are substituted from the harness process; the checks put /repo/src first on sys.path and therefore always execute the current working tree",
            "baseline_off_cmd": "cd /repo && /venv/bin/python -m pytest -ra -q -p no:cacheprovider --timeout=900 --continue-on-collection-errors",
            "source_commits": [],
            "add_only": True,
        },
        "engines": [{
            "name": "sim",
            "path": "sim/",
            "serves_properties": [c["property_id"] for c in checks],
            "kind_free_text": "deterministic simulator: virtual-time asyncio event loop (SimLoop), order-controlled task sets, chooser/tape, fake microgrid API, batch runner with minimisation, replay, known findings and evidence",
        }],
        "checks": checks,
        "not_applicable": sorted(na, key=lambda d: d["property_id"]),
        "notes": "See DESIGN.md. ./check selftest runs the determinism and sensitivity self-tests. known_findings.json lists genuine defects recorded rather than repaired.",
    }
    with open(os.path.join(VERIF, "MANIFEST.json"), "w", encoding="utf-8") as f:
        json.dump(man, f, indent=1)
    print("checks:", [c["property_id"] for c in checks], "pending:", pending)


if __name__ == "__main__":
    main()
