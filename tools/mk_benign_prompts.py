#!/usr/bin/env python3
"""Write the task files for a wave of benign-change sub-agents (false-alarm probe).

usage: tools/mk_benign_prompts.py <wave no> <outdir> <worktree dir> [IDs...]

Like tools/mk_seed_prompts.py, but the task is the opposite: changes that do NOT break the property and go as far
as the property allows.  The prompt contains only the property's text, working instructions and one-line summaries
of earlier benign changes for that property.  Nothing about the checks, harnesses or /verif is given.
"""
import glob
import json
import os
import subprocess
import sys

VERIF = os.path.dirname(os.path.dirname(os.path.abspath(__file__)))
CLAIMED = ["C03", "C04", "C06", "C07", "C08", "C09", "C10", "C11", "C13", "C14", "C15", "C16", "C19", "C20"]


def sh(cmd: str) -> str:
    return subprocess.run(cmd, shell=True, text=True, capture_output=True).stdout


def main() -> int:
    wave, out, wt = int(sys.argv[1]), sys.argv[2], sys.argv[3]
    ids = sys.argv[4:] or CLAIMED
    props = {json.loads(l)["id"]: json.loads(l) for l in open(os.path.join(VERIF, "properties.jsonl"))}
    for pid in ids:
        p = props[pid]
        earlier = []
        for d in sorted(glob.glob(os.path.join(VERIF, "benign", f"{pid}-*", "notes.md"))):
            lines = [l.strip() for l in open(d, encoding="utf-8").read().splitlines() if l.strip()]
            earlier.append("  - " + " ".join(lines[:3])[:260])
        wtd = os.path.join(wt, pid)
        od = os.path.join(out, pid)
        os.makedirs(od, exist_ok=True)
        sh(f"git -C /repo worktree remove --force {wtd} 2>/dev/null; git -C /repo worktree add --detach {wtd} HEAD")
        assert os.path.isdir(os.path.join(wtd, "src")), wtd
        extra = ("* Round 3 focus - prefer changes of these kinds, as long as the property still holds: different handling (exception type, "
                 "early return, logging, retry, restart, closing of channels) of situations the property does NOT quantify over; extra "
                 "internal tasks, caches or bookkeeping that are invalidated correctly; a different moment at which unconstrained side "
                 "outputs (reports, status notifications, logs, results on other channels) are produced; cancellation and shutdown paths; "
                 "pure getters/status queries that compute more or less eagerly. Do NOT make anything raise, hang or lose data for "
                 "inputs and schedules the property does quantify over.") if wave >= 3 else ""
        text = f"""You are helping to evaluate a verification effort for the open-source Python project frequenz-floss/frequenz-sdk-python (an asyncio SDK for energy microgrids). You have your own scratch git worktree of the repository at {wtd} (detached HEAD; work ONLY there; never touch /repo or /verif, never read anything under /verif).

Below is one semantic property the code base satisfies. Your job is the OPPOSITE of fault seeding: produce TWO different, non-trivial source changes (call them "a" and "b") to the library code under {wtd}/src, in or around the files the property is anchored in, that a maintainer could plausibly make and that do NOT break the property - the property (exactly as stated, for everything it quantifies over) must still hold after each change. The purpose is to find out whether a property checker raises FALSE ALARMS on legitimate code evolution, so the changes should go as far as the property allows:

* behaviour changes in aspects the property does NOT constrain: what happens for inputs OUTSIDE the property's quantifier (e.g. malformed, conflicting, out-of-order or out-of-range inputs the property excludes - reject, clamp, log or handle them differently), different but allowed choices where the property leaves freedom (ties, order of independent notifications, which of several acceptable values is picked, timing of things the property does not bound, what is reported in fields the property does not mention), log messages, names of tasks/channels, exception types and messages, default values of configuration the property quantifies over anyway;
* extra or fewer yields to the event loop (`await asyncio.sleep(0)`), a different split of work into tasks, batching, a different (but still legal) order of independent awaits, additional internal bookkeeping/caching that is invalidated correctly;
* real refactorings of the mechanism (different data structure, different control flow, merging/splitting functions, closed forms, early exits that are provably equivalent, equivalent arithmetic - mind floating point: keep results bit-identical where the property speaks about exact values).

Each change must be substantial (not a comment or rename only; at least ~8 changed lines) and must change either the execution path or observable-but-unconstrained behaviour. Avoid anything that would alter behaviour the property does constrain, even in corner cases - if in doubt, leave it out; think about boundary values, ordering, timing and fault cases the property quantifies over (including non-UTC time zones, fractional values, equal values, many elements, restarts).

PROPERTY {pid}: {p['title']}
Statement: {p['statement']}
Quantified over: {p['quantifier']['text']}
Code the property is anchored in: {', '.join(p['anchors']['files'])}

How to work:
* Python to use: /venv/bin/python. IMPORTANT: the venv has the repo installed in editable mode pointing at /repo/src, so ALWAYS run with PYTHONPATH={wtd}/src (e.g. `cd {wtd} && PYTHONPATH={wtd}/src /venv/bin/python -m pytest -q -p no:cacheprovider tests -x -q`) and check that `frequenz.sdk.__file__` starts with {wtd}/src. The full `tests` directory takes about 25 s; all of it must still pass with each change applied (332 tests pass on the unchanged tree; run only the `tests` directory). There is no network.
* Do NOT use `git stash`. To switch between trees use `git diff > {od}/<name>.diff; git checkout -- .; git apply {od}/<name>.diff`.
* Deliverables, written to {od}/a/ and {od}/b/ : patch.diff (output of `git diff` with ONLY that change applied, applying cleanly with `git apply` to the unchanged tree) and notes.md (5-15 lines: what the change does, why the property still holds - argue it for the boundary/ordering/fault cases the property quantifies over -, which unconstrained behaviour (if any) changed, and the test command you ran with its outcome). Optionally a small script check.py that exercises the changed code path and passes both with and without the change.
* Leave the worktree clean (git checkout -- . ; no untracked files) when you are done.

ADDITIONAL INSTRUCTIONS FOR THIS ROUND
* This is round {wave}. {len(earlier)} benign changes were already produced for this property; do not repeat them. Their summaries:
{chr(10).join(earlier)}
* This round, at least one of your two changes must change OBSERVABLE behaviour that the property leaves open (first bullet above), not only the internal structure.
{extra}

Finish with a short summary (5-15 lines) of the two changes and why each preserves the property.
"""
        with open(os.path.join(od, "prompt.txt"), "w", encoding="utf-8") as f:
            f.write(text)
        print(pid, len(earlier), "earlier changes;", os.path.join(od, "prompt.txt"))
    return 0


if __name__ == "__main__":
    sys.exit(main())
