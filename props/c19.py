"""C19 - formulas switch to fallback components when a primary meter fails.

Real: PVPowerFormula on a real component graph, FallbackFormulaMetricFetcher (lazy engine),
MetricFetcher fallback paths, FormulaEngine, ChannelRegistry.  Stub: the resampling actor - the
harness receives the ComponentMetricRequests (including the late ones of the lazily started
fallback engines) and feeds the resampled channels.
"""

from __future__ import annotations

import asyncio
import math
from typing import Any

from props import formula_common as fc
from sim import fakes
from sim.env import Sim
from sim.loop import SimLivelock

ID = "C19"
REAL = ["PVPowerFormula, BatteryPowerFormula and GridPowerFormula generators (+ fallback pairing on the real component graph)", "FallbackFormulaMetricFetcher",
        "MetricFetcher._fetch_next / fetch_next_with_fallback / _synchronize_and_fetch_fallback",
        "ResampledFormulaBuilder", "FormulaEngine / FormulaEvaluator", "ChannelRegistry"]
STUB = ["resampling actor (harness answers ComponentMetricRequests and feeds resampled channels)"]
RULE = ("one run = 1-3 PV meters with 1-2 inverters each (optionally one bare inverter), 8-30 rounds; per (primary, T) "
        "valid/None/NaN with burst failures and recovery, optional close of a primary stream at a drawn round, per "
        "fallback stream a lag of 0-2 rounds and a drawn order inside a round (fallback before/after primary); "
        "non-trivial = at least one primary failure; distinct = abstract digest of (fault kind, component) sequence"
        " Generators: PV, battery, grid, producer, consumer and grid-reactive power; per-component UTC offsets of"
        " the stamps."
        " Transient receive errors are attributed to the known finding only if something is delivered late or the"
        " fallback is not yet in step.")
QUICK_RUNS = 4000
THOROUGH_RUNS = 250_000
EXPECT_PROBES = ["primary_lagging", "transient_primary_error", "grid_formula_variant", "battery_formula_variant", "fallback_started", "fallback_lagging", "primary_recovered", "fallback_before_primary", "primary_closed",
                 "producer_formula_variant", "grid_reactive_formula_variant", "consumer_formula_variant", "transient_error_while_fallback_in_step"]


TAIL = 6
TRANSIENT_WINDOW = 6
"""Timestamps e .. e+6 after an injected transient receive error at e are attributed to the known finding."""
"""Fault-free rounds delivered after the judged ones, so that a fallback started by a failure in the
last judged round still gets data (streams do not end in reality)."""


def v(cid: int, k: int) -> float:
    return float(cid * 1000 + k * 3) + 0.5


def scenario(sim: Sim, timeline_only: bool = False) -> None:
    """`timeline_only`: used by props/c06.py - same generated formulas and delivery, missing primary samples and lag, but no
    closed or erroring streams, and judged only on C06's clauses (consecutive timestamps, value from one timestamp)."""
    from frequenz.channels import Broadcast
    from frequenz.client.microgrid import Component, ComponentCategory, Connection, InverterType
    from frequenz.quantities import Quantity
    from frequenz.sdk._internal._channels import ChannelRegistry
    from frequenz.sdk.timeseries import Sample
    from frequenz.sdk.timeseries.formula_engine._formula_generators._formula_generator import FormulaGeneratorConfig
    from frequenz.sdk.timeseries.formula_engine._formula_generators._pv_power_formula import PVPowerFormula

    ch = sim.ch
    # PVPowerFormula / BatteryPowerFormula / GridPowerFormula / ProducerPowerFormula / GridReactivePowerFormula
    # / ConsumerPowerFormula (grid meter minus the PV chains)
    gk = ch.weighted("generator", [5, 3, 2, 2, 1, 2])
    battery = gk == 1
    grid = gk in (2, 4)
    nterms = 1 + ch.weighted("nterms", [3, 3, 1])
    comps = {Component(1, ComponentCategory.GRID)}
    conns: set[Any] = set()
    if not grid:
        comps.add(Component(2, ComponentCategory.METER))
        conns.add(Connection(1, 2))
    top = 1 if grid else 2      # in the grid variant the PV meters are the grid's direct successors
    terms: list[dict[str, Any]] = []
    battery_ids: set[int] = set()
    for j in range(nterms):
        m = 10 * (j + 1)
        ninv = 1 + ch.draw("ninv", 2)
        invs = [m + 1 + x for x in range(ninv)]
        comps.add(Component(m, ComponentCategory.METER))
        conns.add(Connection(top, m))
        for i in invs:
            comps.add(Component(i, ComponentCategory.INVERTER, InverterType.BATTERY if battery else InverterType.SOLAR))
            conns.add(Connection(m, i))
            if battery:
                comps.add(Component(i + 4, ComponentCategory.BATTERY))
                conns.add(Connection(i, i + 4))
                battery_ids.add(i + 4)
        terms.append({"primary": m, "fallback": invs})
    bare = ch.chance("bare_inverter", 0.2)
    if bare:
        comps.add(Component(90, ComponentCategory.INVERTER, InverterType.BATTERY if battery else InverterType.SOLAR))
        conns.add(Connection(top, 90))
        if battery:
            comps.add(Component(94, ComponentCategory.BATTERY))
            conns.add(Connection(90, 94))
            battery_ids.add(94)
    if battery:
        sim.probe("battery_formula_variant")
    if grid:
        sim.probe("grid_formula_variant")
    api = fakes.FakeMicrogridApi(sim, comps, conns)
    fakes.install_connection_manager(api)

    rounds = ch.int_between("rounds", 8, sim.scale(30, 70))
    # ---- fault plan for primaries: per term a few failure bursts; optionally a close
    plan: dict[tuple[int, int], str] = {}
    for t in terms:
        nb = ch.weighted("nbursts", [1, 4, 2])
        for _ in range(nb):
            start = ch.draw("burst_start", rounds)
            length = ch.choice("burst_len", [1, 1, 2, 3, 6, 30])
            kind = ch.choice("burst_kind", ["none", "nan", "none"])
            for k in range(start, min(rounds, start + length)):
                plan[(t["primary"], k)] = kind
    close: tuple[int, int] | None = None
    if not timeline_only and ch.chance("close_primary", 0.15):
        close = (terms[ch.draw("close_term", nterms)]["primary"], ch.draw("close_round", rounds))
    fb_none_rate = ch.choice("fb_none_rate", [0.0, 0.0, 0.04])
    fb_ids = {i for t in terms for i in t["fallback"]}
    lag = {i: ch.weighted("fb_lag", [4, 2, 1]) for i in sorted(fb_ids)}
    # primaries (and the bare inverter) may be delivered late as well: the formula then runs behind and the
    # fallback streams are *ahead* of what the formula is processing
    for t in terms:
        lag[t["primary"]] = ch.weighted("primary_lag", [8, 1, 1, 1])
    if bare:
        lag[90] = ch.weighted("bare_lag", [4, 1, 1])
    if any(lag[t["primary"]] for t in terms):
        sim.probe("primary_lagging")
    # transient (non-stop) receiver errors on primary streams
    transient: set[tuple[int, int]] = set()
    if not timeline_only and ch.chance("transient_errors", 0.25):
        for _ in range(1 + ch.draw("n_transient", 3)):
            transient.add((terms[ch.draw("transient_term", nterms)]["primary"], ch.draw("transient_round", rounds)))
    sim.config.update(generator=["pv", "battery", "grid", "producer", "grid_reactive", "consumer"][gk], terms=terms, bare=bare, rounds=rounds, close=close, lag={str(k): x for k, x in lag.items()})
    sim.loop.max_iters_no_advance = 4000
    sim.loop.max_steps = 60_000
    fc.draw_stream_offsets(sim, sorted(c.component_id for c in comps))
    sim.set_cost_mode(ch.weighted("cost_mode", [3, 1]))

    faulty_keys: set[tuple[str, Any]] = set()
    out: list[tuple[int, float | None, bool]] = []
    first_index: dict[int, int] = {}
    delivered: dict[tuple[int, int], float | None] = {}
    state = {"closed": False}

    async def main() -> None:
        reg = _faulty_registry(faulty_keys)
        sub: Broadcast[Any] = Broadcast(name="subscriptions")
        subrx = sub.new_receiver(limit=200)
        if battery:
            from frequenz.sdk.timeseries.formula_engine._formula_generators._battery_power_formula import BatteryPowerFormula

            gen: Any = BatteryPowerFormula("ns", reg, sub.new_sender(), FormulaGeneratorConfig(component_ids=battery_ids))
        elif gk == 4:
            from frequenz.sdk.timeseries.formula_engine._formula_generators._grid_reactive_power_formula import (
                GridReactivePowerFormula)

            sim.probe("grid_reactive_formula_variant")
            gen = GridReactivePowerFormula("ns", reg, sub.new_sender(), FormulaGeneratorConfig())
        elif grid:
            from frequenz.sdk.timeseries.formula_engine._formula_generators._grid_power_formula import GridPowerFormula

            gen = GridPowerFormula("ns", reg, sub.new_sender(), FormulaGeneratorConfig())
        elif gk == 5:
            from frequenz.sdk.timeseries.formula_engine._formula_generators._consumer_power_formula import (
                ConsumerPowerFormula)

            sim.probe("consumer_formula_variant")
            gen = ConsumerPowerFormula("ns", reg, sub.new_sender(), FormulaGeneratorConfig())
        elif gk == 3:
            from frequenz.sdk.timeseries.formula_engine._formula_generators._producer_power_formula import (
                ProducerPowerFormula)

            sim.probe("producer_formula_variant")
            gen = ProducerPowerFormula("ns", reg, sub.new_sender(), FormulaGeneratorConfig())
        else:
            gen = PVPowerFormula("ns", reg, sub.new_sender(), FormulaGeneratorConfig())
        eng = gen.generate()
        sim.note(f"formula {eng}")
        sim.ev("formula", str(eng))
        rx_out = eng.new_receiver(max_size=2000)
        senders: dict[int, list[Any]] = {}
        keys: dict[int, str] = {}

        async def subs() -> None:
            async for req in subrx:
                key = req.get_channel_name()
                tx = reg.get_or_create(Sample[Quantity], key).new_sender()
                senders.setdefault(req.component_id, []).append(tx)
                keys[req.component_id] = key
                sim.ev("subscribed", req.component_id)
                if req.component_id in fb_ids:
                    sim.probe("fallback_started")

        async def reader() -> None:
            async for s in rx_out:
                k = fc.ts_index(sim, s.timestamp)
                out.append((k, fc.out_value(s), state["closed"]))
                sim.ev("out", "", k)

        t_subs = sim.spawn(subs())
        t_read = sim.spawn(reader())
        await asyncio.sleep(0.05)

        async def deliver(cid: int, k: int) -> None:
            if k < 0 or k >= rounds + TAIL:
                return
            if close and cid == close[0] and k >= close[1]:
                if not state["closed"]:
                    state["closed"] = True
                    sim.fault("primary_closed")
                    sim.probe("primary_closed")
                    sim.note(f"close stream of primary {cid} at round {k}")
                    sim.ev("close", cid, k)
                    await reg.close_and_remove(keys[cid])
                return
            kind = plan.get((cid, k), "ok")
            if cid in fb_ids and fb_none_rate and ch.chance("fb_none", fb_none_rate):
                kind = "none"
            if (cid, k) in transient and kind == "ok":
                kind = "error"
            val: float | None = {"ok": v(cid, k), "none": None, "nan": math.nan, "error": v(cid, k)}[kind]
            if kind == "error":
                faulty_keys.add((keys[cid], fc.grid_ts(sim, k)))   # the receiver raises when it consumes this sample
                sim.probe("transient_primary_error")
            if kind != "ok":
                sim.fault(("primary_" if cid not in fb_ids else "fallback_") + kind)
                sim.ev("fault", f"{cid}:{kind}", k)
                sim.note(f"component {cid} T={k}: {kind}")
            delivered[(cid, k)] = None if kind == "error" else val     # a sample lost to a receive error is missing
            first_index.setdefault(cid, k)
            for tx in senders[cid]:
                await tx.send(Sample(fc.grid_ts(sim, k, cid), None if val is None else Quantity(val)))

        for k in range(rounds + TAIL + 3):
            cids = sorted(senders)
            order = ch.shuffle("order", cids) if ch.chance("perm", 0.4) else cids
            prim_pos = {t["primary"]: order.index(t["primary"]) for t in terms if t["primary"] in order}
            for cid in order:
                L = lag.get(cid, 0)
                if L and cid in fb_ids:
                    sim.probe("fallback_lagging")
                for t in terms:
                    if cid in t["fallback"] and L == 0 and t["primary"] in prim_pos and order.index(cid) < prim_pos[t["primary"]]:
                        sim.probe("fallback_before_primary")
                await deliver(cid, k - L)
                if ch.chance("yield", 0.3):
                    await asyncio.sleep(0)
            await asyncio.sleep(1.0)
            if ch.chance("stall", 0.02):
                sim.stall(ch.choice("stall_us", [200_000, 1_500_000]))
        await asyncio.sleep(5.0)
        t_read.cancel()
        t_subs.cancel()
        await eng._stop()

    try:
        sim.run(main())
    except SimLivelock:
        sim.loop._iters_no_advance = 0
        if state["closed"]:
            sim.violation("output_after_primary_closed", {"history": "after_close", "what": "engine spins without emitting"},
                          f"primary {close} closed; formula engine livelocked (no clock advance, no output); "
                          f"last outputs {out[-3:]}")
        raise
    minuend = 2 if gk == 5 else None       # consumer power = grid meter (component 2) - everything else
    if timeline_only:
        _oracle_timeline(sim, terms, bare, rounds, delivered, out, minuend)
        return
    _oracle(sim, terms, bare, rounds, delivered, first_index, out, close, transient, minuend, lag)


def _faulty_registry(faulty_keys: set[tuple[str, Any]]) -> Any:
    """ChannelRegistry whose receivers raise a transient (non-stop) ReceiverError when they consume a sample the
    harness marked - the "primary stream erroring at any point" of the quantifier."""
    from frequenz.channels import Receiver, ReceiverError
    from frequenz.sdk._internal._channels import ChannelRegistry

    class FaultyReceiver(Receiver[Any]):
        def __init__(self, inner: Any, key: str) -> None:
            self._inner, self._key = inner, key

        async def ready(self) -> bool:
            return bool(await self._inner.ready())

        def consume(self) -> Any:
            msg = self._inner.consume()
            if (self._key, msg.timestamp) in faulty_keys:
                raise ReceiverError("injected transient receive error", self)
            return msg

        def close(self) -> None:
            if hasattr(self._inner, "close"):
                self._inner.close()

    class Proxy:
        def __init__(self, chan: Any, key: str) -> None:
            self._chan, self._key = chan, key

        def new_receiver(self, **kw: Any) -> Any:
            return FaultyReceiver(self._chan.new_receiver(**kw), self._key)

        def __getattr__(self, name: str) -> Any:
            return getattr(self._chan, name)

    class FaultyRegistry(ChannelRegistry):
        def get_or_create(self, message_type: Any, key: str) -> Any:
            return Proxy(super().get_or_create(message_type, key), key)

    return FaultyRegistry(name="reg")


def _valid(x: float | None) -> bool:
    return x is not None and not math.isnan(x) and not math.isinf(x)


def _oracle(sim: Sim, terms: list[dict[str, Any]], bare: bool, rounds: int, delivered: dict[tuple[int, int], float | None],
            first_index: dict[int, int], out: list[tuple[int, float | None, bool]], close: tuple[int, int] | None,
            transient: set[tuple[int, int]], minuend: int | None = None, lags: dict[int, int] | None = None) -> None:
    lags = lags or {}
    if any(not _valid(delivered.get((t["primary"], k))) for t in terms for k in range(rounds)):
        sim.nontrivial = True
    # per term: T0 (first invalid primary round) and T_f (first index present on all fallback streams)
    exact_from: dict[int, int] = {}
    t0s: dict[int, int | None] = {}
    for t in terms:
        p = t["primary"]
        t0 = next((k for k in range(rounds) if not _valid(delivered.get((p, k)))), None)
        t0s[p] = t0
        if t0 is not None and any(_valid(delivered.get((p, k))) for k in range(t0 + 1, rounds)):
            sim.probe("primary_recovered")
        if t0 is None:
            exact_from[p] = rounds + 10
        elif any(i not in first_index for i in t["fallback"]):
            # TAIL fault-free rounds follow the judged ones, so a fallback started by any judged failure
            # must have subscribed and received data by the end of the run (bounded start-up)
            exact_from[p] = rounds + 10
            sim.soft_violation("fallback_started", {"history": "after_transient_error:lagging_or_not_in_step" if any(c == p for c, _ in transient)
                                                    else ("after_close" if close and close[0] == p else "no_close")},
                               f"primary {p} invalid from T={t0} but fallback components "
                               f"{[i for i in t['fallback'] if i not in first_index]} were never subscribed "
                               f"({rounds + TAIL - t0} rounds later)")
        else:
            tf = max(first_index[i] for i in t["fallback"])
            exact_from[p] = max(t0 + 1, tf)
    closed_from = close[1] if close else None

    # the known defect around transient receive errors (known_findings.json) is short-lived: a few timestamps
    # after the error the formula is aligned again.  Only that neighbourhood is attributed to it, so that anything
    # going wrong later (e.g. "never returns to the primary") is still reported.
    transient_rounds = sorted(k for _, k in transient)
    # ... and only under the conditions it needs: the formula running behind the fallback stream (some stream
    # delivered late) or the error arriving before the term's fallback has been started and is in step.  An error on
    # a primary whose fallback has been running in step for a while, with nothing delivered late, is handled
    # correctly by the pinned tree - there, a wrong or missing sample is a violation like any other.
    nolag = not any(lagv for lagv in lags.values())
    synced = all(t0s.get(p_) is not None and t0s[p_] <= e_ - 4 for p_, e_ in transient)  # type: ignore[operator]
    transient_cond = "fallback_in_step" if (nolag and synced) else "lagging_or_not_in_step"
    if transient and transient_cond == "fallback_in_step":
        sim.probe("transient_error_while_fallback_in_step")

    def phase_of(k: int, after_close: bool | None) -> str:
        """Which history a finding belongs to: only what happens after a primary stream was closed is
        attributed to the close (everything emitted before it is an ordinary close-free history); likewise
        for timestamps from the first injected transient receive error on."""
        if any(e <= k <= e + TRANSIENT_WINDOW for e in transient_rounds):
            return "after_transient_error:" + transient_cond
        if closed_from is None:
            return "no_close"
        if after_close is None:  # a missing output
            return "after_close" if k >= closed_from - 3 else "before_close"
        return "after_close" if after_close else "before_close"

    ts_seq = [k for k, _, _ in out]
    seen: dict[int, tuple[float | None, bool]] = {}
    prev = -1
    for k, val, ac in out:
        if k in seen or k < prev:
            sim.soft_violation("once_in_order", {"history": phase_of(k, ac)},
                               f"output stamped T={k} repeated or out of order; sequence {ts_seq[:24]}")
        seen.setdefault(k, (val, ac))
        prev = max(prev, k)
    for k in range(rounds):
        want = 0.0
        decided = True      # False: some term has no valid source (unspecified)
        window = False      # True: some term is inside its start-up window -> None is acceptable
        for t in terms:
            p = t["primary"]
            pv = delivered.get((p, k))
            if _valid(pv):
                want += pv  # type: ignore[operator]
                continue
            fbs = [delivered.get((i, k)) for i in t["fallback"]]
            if not all(_valid(x) for x in fbs):
                decided = False
                continue
            if k < exact_from[p]:
                window = True
            want += sum(fbs)  # type: ignore[arg-type]
        if bare:
            bv = delivered.get((90, k))
            want += bv if _valid(bv) else 0.0  # type: ignore[operator]
        if minuend is not None:
            mv = delivered.get((minuend, k))
            if not _valid(mv):
                decided = False
            else:
                want = mv - want  # type: ignore[operator]
        if not decided:
            continue
        primary_failed = any(not _valid(delivered.get((t["primary"], k))) for t in terms)
        src = "fallback" if primary_failed else "primary"
        if k not in seen:
            if window:
                continue
            sim.soft_violation("value_every_round", {"history": phase_of(k, None), "source": src},
                               f"no output stamped T={k} although every term has a valid source "
                               f"(T0={t0s}, exact_from={exact_from}); outputs {ts_seq[:25]}")
            continue
        got, ac = seen[k]
        if got is None:
            if window:
                continue
            sim.soft_violation("exact_sum", {"history": phase_of(k, ac), "source": src, "got": "none"},
                               f"T={k}: output None although every term has a valid source (expected {want}); "
                               f"T0={t0s} exact_from={exact_from}")
        elif not math.isclose(got, want, rel_tol=1e-9, abs_tol=1e-6):
            sim.soft_violation("exact_sum", {"history": phase_of(k, ac), "source": src, "got": "wrong_value"},
                               f"T={k}: output {got}, expected {want} = sum over terms of (primary if valid else "
                               f"sum of fallbacks) at T={k}; T0={t0s} exact_from={exact_from} window={window}")


def _oracle_timeline(sim: Sim, terms: list[dict[str, Any]], bare: bool, rounds: int,
                     delivered: dict[tuple[int, int], float | None], out: list[tuple[int, float | None, bool]],
                     minuend: int | None = None) -> None:
    """C06's clauses on a generated formula with fallback fetchers (no stream is closed or erroring here):
    emitted timestamps advance by exactly one step, and a non-None value is the formula of the inputs stamped T
    (each term: its primary if valid at T, else the sum of its fallback components at T)."""
    if any(not _valid(delivered.get((t["primary"], k))) for t in terms for k in range(rounds)):
        sim.nontrivial = True
        sim.probe("fallback_formula_with_missing_primary")
    ts_seq = [k for k, _, _ in out]
    sig = {"formula": "generated_with_fallback"}
    for a, b in zip(ts_seq, ts_seq[1:]):
        if b != a + 1:
            sim.soft_violation("consecutive_timestamps", dict(sig, what="repeated" if b == a else ("reordered" if b < a else "skipped")),
                               f"output stamped T={a} followed by T={b}; sequence {ts_seq[:30]}")
            break
    if ts_seq and ts_seq[-1] < rounds - 1:
        sim.soft_violation("consecutive_timestamps", dict(sig, what="stopped"),
                           f"last output stamped T={ts_seq[-1]}, inputs delivered up to T={rounds + TAIL - 1}")
    for k, got, _ in out:
        if got is None or k >= rounds:
            continue
        want = 0.0
        decided = True
        for t in terms:
            pv = delivered.get((t["primary"], k))
            if _valid(pv):
                want += pv  # type: ignore[operator]
                continue
            fbs = [delivered.get((i, k)) for i in t["fallback"]]
            if not all(_valid(x) for x in fbs):
                decided = False
                break
            want += sum(fbs)  # type: ignore[arg-type]
        if not decided:
            continue
        if bare:
            bv = delivered.get((90, k))
            want += bv if _valid(bv) else 0.0  # type: ignore[operator]
        if minuend is not None:
            mv = delivered.get((minuend, k))
            if not _valid(mv):
                continue
            want = mv - want  # type: ignore[operator]
        if not math.isclose(got, want, rel_tol=1e-9, abs_tol=1e-6):
            sim.soft_violation("single_timestamp", dict(sig, what="value_from_other_timestamp"),
                               f"T={k}: output {got}, but the inputs stamped T={k} give {want}")
            break


# --------------------------------------------------------------------------- in-process mutants
def _mut_never_fallback() -> Any:
    from frequenz.sdk.timeseries.formula_engine import _formula_steps as fs

    orig = fs.MetricFetcher._fetch_next

    async def _fetch_next(self: Any) -> Any:
        return await self._stream.receive()

    fs.MetricFetcher._fetch_next = _fetch_next  # type: ignore[method-assign]
    return lambda: setattr(fs.MetricFetcher, "_fetch_next", orig)


def _mut_no_fallback_sync() -> Any:
    """Take the next fallback sample without aligning it to the primary's timestamp."""
    from frequenz.sdk.timeseries.formula_engine import _formula_steps as fs

    orig = fs.MetricFetcher._synchronize_and_fetch_fallback

    async def sync(self: Any, primary: Any, fb: Any) -> Any:
        self._latest_fallback_sample = await fb.receive()
        return self._latest_fallback_sample

    fs.MetricFetcher._synchronize_and_fetch_fallback = sync  # type: ignore[method-assign]
    return lambda: setattr(fs.MetricFetcher, "_synchronize_and_fetch_fallback", orig)


def _mut_sticky_fallback() -> Any:
    """Once running, the fallback value is used even when the primary has recovered."""
    from frequenz.sdk.timeseries.formula_engine import _formula_steps as fs

    orig = fs.MetricFetcher._is_value_valid

    def _is_value_valid(self: Any, value: Any) -> bool:
        import inspect

        caller = inspect.stack()[1].function
        if caller == "fetch_next_with_fallback":
            return False
        return orig(self, value)

    fs.MetricFetcher._is_value_valid = _is_value_valid  # type: ignore[method-assign]
    return lambda: setattr(fs.MetricFetcher, "_is_value_valid", orig)


MUTANTS = {"never_fallback": _mut_never_fallback, "no_fallback_sync": _mut_no_fallback_sync,
           "sticky_fallback": _mut_sticky_fallback}
