"""C11 - distributed power = regular target + operating-point target, inside the latest bounds.

Real: the complete PowerManagingActor (both Matryoshkas, _calculate_target_power,
_calculate_shifted_bounds, _bounds_tracker, _send_reports, the select loop, the 1 s drop Timer).
Stub: bounds source, power distributor (harness answers each Request as drawn).
Oracle (at idle points, i.e. when the actor has processed everything delivered so far): the last Request
equals (target in the latest _Report delivered to the regular subscribers) + (target in the latest
_Report delivered to the operating-point subscribers), and lies inside the latest published bounds.
"""

from __future__ import annotations

import asyncio
from typing import Any

from props import powermgr as pm
from sim.env import Sim

ID = "C11"
REAL = ["PowerManagingActor._run select loop", "_calculate_target_power / _calculate_shifted_bounds", "_bounds_tracker",
        "_send_reports", "Matryoshka x2 (regular, operating point)", "Timer(1s) drop_old_proposals", "ChannelRegistry"]
STUB = ["bounds source (FakeBoundsPool)", "power distributor (harness answers Requests)", "client actors"]
RULE = ("one run = 1-3 regular and 1-2 operating-point actors subscribed for reports; 8-40 events: regular proposal, "
        "operating-point proposal, new system bounds (widen / shrink / shift, incl. between proposals), distribution "
        "result Success/PartialFailure/Error/none after a drawn delay, time advance incl. past the 60 s expiry; "
        "non-trivial = a bounds update arrived while both groups had a target; distinct = abstract digest of the event "
        "sequence (kind, actor)"
        " Values also carry binary fractions of a watt; battery / EV-charger / PV pool category drawn; proposals"
        " optionally through a BatteryPool front-end.")
QUICK_RUNS = 4000
THOROUGH_RUNS = 250_000
EXPECT_PROBES = ["bounds_with_older_timestamp", "late_result_of_older_request", "two_component_groups", "bounds_update_between_proposals", "only_regular_changed", "only_op_changed", "partial_failure_result",
                 "error_result", "expiry", "bounds_shrink_below_sum"]

IDS = frozenset({8, 18})
IDS2 = frozenset({28, 38})


def scenario(sim: Sim) -> None:
    ch = sim.ch
    nreg = ch.int_between("nreg", 1, 3)
    nop = ch.int_between("nop", 1, 2)
    regs = [{"name": f"r{i}", "prio": p, "op": False} for i, p in enumerate(ch.shuffle("rp", [1, 3, 5, 8])[:nreg])]
    ops = [{"name": f"o{i}", "prio": p, "op": True} for i, p in enumerate(ch.shuffle("opp", [2, 4, 9])[:nop])]
    ngroups = 1 + ch.weighted("ngroups", [3, 1])
    groups = [IDS, IDS2][:ngroups]
    if ngroups > 1:
        sim.probe("two_component_groups")
    h = pm.ActorHarness(sim, groups)
    sim.set_cost_mode(ch.weighted("cost_mode", [3, 1]))
    sts: list[dict[str, Any]] = [{"sb": None, "sb_prev": None, "checked_req": 0, "nbounds_since_prop": 0,
                                  "last_sum": None, "have_reg": False, "have_op": False, "last_event": "bounds"}
                                 for _ in groups]

    def targets(g: int) -> tuple[float, float, bool]:
        r = o = 0.0
        seen = False
        for a in regs:
            reps = h.reports[(g, a["name"])]
            if reps:
                seen = True
                r = pm.watts(reps[-1].target_power) or 0.0
        for a in ops:
            reps = h.reports[(g, a["name"])]
            if reps:
                seen = True
                o = pm.watts(reps[-1].target_power) or 0.0
        return r, o, seen

    def on_idle() -> None:
        for g in range(ngroups):
            check_group(g)

    def check_group(g: int) -> None:
        st = sts[g]
        greqs = [r for r in h.requests if r["g"] == g]
        # evaluated whenever something happened since the last idle point: a new Request, or a bounds update
        # (after which the last Request must either have been replaced or still be inside the new bounds)
        key = (len(greqs), len([p for p in h.published if p["g"] == g]))
        if not greqs or st["sb"] is None or key == st["checked_req"]:
            return
        st["checked_req"] = key
        req = greqs[-1]
        r, o, seen = targets(g)
        if not seen:
            return
        sim.model_states.add((r != 0.0, o != 0.0))
        if abs(req["power"] - (r + o)) > 1e-6:
            what = "after_bounds_update" if st["last_event"] == "bounds" else f"after_{st['last_event']}"
            sim.soft_violation("request_equals_sum", {"trigger": what},
                               f"last request {req['power']} W, but reports say regular target {r} W + operating-point "
                               f"target {o} W = {r + o} W (latest bounds {st['sb']}; last event {st['last_event']})")
        sb = st["sb"]
        lo, hi = (0.0, 0.0) if sb["lo"] is None else (sb["lo"], sb["hi"])
        if not lo - 1e-6 <= req["power"] <= hi + 1e-6:
            what = "after_bounds_update" if st["last_event"] == "bounds" else f"after_{st['last_event']}"
            sim.soft_violation("request_in_bounds", {"trigger": what},
                               f"last request {req['power']} W outside the latest system inclusion bounds [{lo}, {hi}] "
                               f"(reports: regular {r} W, operating point {o} W; last event {st['last_event']})")

    async def main() -> None:
        await h.start()
        for g in range(ngroups):
            for a in regs + ops:
                await h.subscribe_reports(g, a)
        await asyncio.sleep(0.01)
        for g in range(ngroups):
            sb = pm.gen_sysbounds(ch, allow_none=False)
            sts[g]["sb"] = sb
            h.publish_bounds(g, sb)
        await asyncio.sleep(0.01)
        sim.loop.idle_hooks.append(on_idle)
        live_regs: list[dict[str, dict[str, Any]]] = [{} for _ in groups]
        live_ops: list[dict[str, dict[str, Any]]] = [{} for _ in groups]
        pending_results: list[Any] = []
        for _ in range(ch.int_between("nevents", 8, sim.scale(40, 100))):
            g = ch.draw("group", ngroups)
            st = sts[g]
            live_reg, live_op = live_regs[g], live_ops[g]
            kind = ch.weighted("event", [5, 4, 5, 3, 2])
            if kind in (0, 1):
                a = (regs if kind == 0 else ops)[ch.draw("actor", nreg if kind == 0 else nop)]
                p = pm.gen_proposal(ch, a, st["sb"], list(live_reg.values()) + list(live_op.values()), sim.loop.time())
                (live_reg if kind == 0 else live_op)[a["name"]] = p
                st["have_reg" if kind == 0 else "have_op"] = True
                nreq = len([r for r in h.requests if r["g"] == g])
                st["last_event"] = "regular_proposal" if kind == 0 else "op_proposal"
                st["nbounds_since_prop"] = 0
                h.propose(g, p)
                await asyncio.sleep(0.002)
                if len([r for r in h.requests if r["g"] == g]) <= nreq:
                    sim.soft_violation("proposal_produces_request", {"what": "no request after a proposal"}, pm.pstr(p))
            elif kind == 2:
                old = st["sb"]
                bk = ch.weighted("bounds_kind", [3, 3, 2, 2])
                if bk == 0 or old["lo"] is None:
                    sb2 = pm.gen_sysbounds(ch)
                elif bk == 1:   # shrink
                    f = ch.choice("shrink", [0.5, 0.1, 0.9, 0.0])
                    sb2 = dict(old, lo=float(int(old["lo"] * f)), hi=float(int(old["hi"] * f)))
                    if ch.chance("shrink_one_side", 0.5):
                        sb2["lo"] = old["lo"]
                elif bk == 2:   # widen
                    sb2 = dict(old, lo=old["lo"] * 2 - 10, hi=old["hi"] * 2 + 10)
                else:           # shift upper down to just below / at / above the current sum
                    r, o, _s = targets(g)
                    tgt = r + o
                    sb2 = dict(old, hi=max(0.0, tgt + ch.choice("edge", [-1.0, 0.0, 1.0, -5.0])),
                               lo=min(0.0, old["lo"]))
                    sim.probe("bounds_shrink_below_sum")
                if st["have_reg"] and st["have_op"]:
                    sim.probe("bounds_update_between_proposals")
                    sim.nontrivial = True
                r0, o0, _s = targets(g)
                st["sb_prev"], st["sb"] = old, sb2
                st["last_event"] = "bounds"
                st["nbounds_since_prop"] += 1
                # the timestamp a pool puts on its bounds is the newest timestamp of the component data it used, so a
                # later message can carry an older timestamp; "latest" means latest received
                back = 0
                if ch.chance("older_timestamp", 0.25):
                    back = ch.choice("stamp_back_us", [1, 5_000, 2_000_000])
                    sim.probe("bounds_with_older_timestamp")
                h.publish_bounds(g, sb2, stamp_back_us=back)
                await asyncio.sleep(0.002)
                r1, o1, _s = targets(g)
                if r1 != r0 and o1 == o0:
                    sim.probe("only_regular_changed")
                if o1 != o0 and r1 == r0:
                    sim.probe("only_op_changed")
            elif kind == 3:
                greqs2 = [r for r in h.requests if r["g"] == g]
                if greqs2:
                    rk = ch.weighted("result_kind", [4, 2, 2])
                    kindname = ["success", "partial", "error"][rk]
                    if rk == 1:
                        sim.probe("partial_failure_result")
                    if rk == 2:
                        sim.probe("error_result")
                    sim.fault("result_" + kindname)
                    st["last_event"] = "result_" + kindname
                    # usually the result of the latest request, sometimes a late result of an older request
                    # (the targets may have changed since that request was sent)
                    back = 0
                    if len(greqs2) > 1 and ch.chance("late_result_of_older_request", 0.35):
                        back = 1 + ch.draw("how_old", min(3, len(greqs2) - 1))
                        sim.probe("late_result_of_older_request")
                    h.send_result(kindname, greqs2[-1 - back]["req"])
                    await asyncio.sleep(ch.choice("res_gap", [0.001, 0.05, 0.5]))
            else:
                dt = ch.choice("dt_s", [0.3, 1.0, 5.0, 30.0, 59.5, 61.0, 63.0])
                if dt > 59:
                    sim.probe("expiry")
                await asyncio.sleep(dt)
            if ch.chance("stall", 0.02):
                sim.stall(ch.choice("stall_us", [300_000, 1_200_000, 2_500_000]))
        await asyncio.sleep(0.1)
        sim.loop.idle_hooks.remove(on_idle)
        del pending_results
        await h.stop()

    sim.run(main())


# --------------------------------------------------------------------------- in-process mutants
def _mut_reports_unshifted() -> Any:
    """Sum is computed from the operating-point target only when an op proposal arrives."""
    from frequenz.sdk.microgrid._power_managing import _power_managing_actor as pma

    orig = pma.PowerManagingActor._calculate_target_power

    def calc(self: Any, component_ids: Any, proposal: Any, must_send: bool = False) -> Any:
        res = orig(self, component_ids, proposal, must_send)
        if proposal is not None and proposal.set_operating_point:
            return self._set_op_power_group.get_target_power(component_ids)
        return res

    pma.PowerManagingActor._calculate_target_power = calc  # type: ignore[method-assign]
    return lambda: setattr(pma.PowerManagingActor, "_calculate_target_power", orig)


def _mut_bounds_tracker_no_recompute() -> Any:
    """Bounds updates only refresh the cache; the target is not recomputed."""
    from frequenz.sdk.microgrid._power_managing import _power_managing_actor as pma

    orig = pma.PowerManagingActor._bounds_tracker

    async def tracker(self: Any, component_ids: Any, bounds_receiver: Any) -> None:
        async for bounds in bounds_receiver:
            self._system_bounds[component_ids] = bounds
            await self._send_reports(component_ids)

    pma.PowerManagingActor._bounds_tracker = tracker  # type: ignore[method-assign]
    return lambda: setattr(pma.PowerManagingActor, "_bounds_tracker", orig)


def _mut_no_shift() -> Any:
    """Regular group computed inside the unshifted bounds when an operating-point proposal arrives."""
    from frequenz.sdk.microgrid._power_managing import _power_managing_actor as pma

    orig = pma.PowerManagingActor._calculate_shifted_bounds

    def shifted(self: Any, bounds: Any, op_power: Any) -> Any:
        return bounds

    pma.PowerManagingActor._calculate_shifted_bounds = shifted  # type: ignore[method-assign]
    return lambda: setattr(pma.PowerManagingActor, "_calculate_shifted_bounds", orig)


MUTANTS = {"op_proposal_sends_op_target_only": _mut_reports_unshifted,
           "bounds_tracker_no_recompute": _mut_bounds_tracker_no_recompute, "no_shift": _mut_no_shift}
