"""Shared machinery for the power-manager properties (C03, C04, C11).

* generators for system bounds / proposals biased onto every interval end point in play,
* a small reference model of the priority sweep written from the property statement (C04),
* `ActorHarness`: the real PowerManagingActor on the simulated loop with a fake bounds source
  (`FakeBoundsPool`, substituted for `_data_pipeline.new_battery_pool`) and a fake distributor.
"""

from __future__ import annotations

import asyncio
import math
from datetime import timedelta
from typing import Any

from sim.env import Sim

MAX_AGE_S = 60.0
VALS = [0, 1, -1, 5, -5, 10, -10, 29, 30, 31, -29, -30, -31, 50, -50, 99, 100, 101, -99, -100, -101, 250, -250,
        1000, -1000, 999, 1001, 5000, -5000]


def W(x: float | None) -> Any:
    from frequenz.quantities import Power

    return None if x is None else Power.from_watts(float(x))


def watts(p: Any) -> float | None:
    return None if p is None else p.as_watts()


# ------------------------------------------------------------------------------ generators
def gen_sysbounds(ch: Any, *, allow_none: bool = True) -> dict[str, Any]:
    """System bounds with lower <= 0 <= upper and an exclusion zone containing 0 (plain dict form)."""
    kind = ch.weighted("sb_kind", [12, 1 if allow_none else 0])
    if kind == 1:
        return {"lo": None, "hi": None, "xlo": 0.0, "xhi": 0.0}
    lo = -float(ch.choice("sb_lo", [100, 1000, 0, 1, 50, 5000]))
    hi = float(ch.choice("sb_hi", [100, 1000, 0, 1, 50, 5000]))
    xk = ch.weighted("sb_excl", [4, 3, 2, 1])
    if xk == 0:
        xlo = xhi = 0.0
    elif xk == 1:
        e = float(ch.choice("sb_e", [30, 10, 100, 2000]))
        xlo, xhi = -e, e
    elif xk == 2:
        xlo = -float(ch.choice("sb_e1", [30, 10, 100, 0]))
        xhi = float(ch.choice("sb_e2", [10, 30, 100, 0]))
    else:  # bigger than the inclusion range on at least one side
        xlo, xhi = lo - float(ch.choice("sb_over", [0, 1, 50])), hi + float(ch.choice("sb_over2", [0, 1, 50]))
    # boundaries need not be whole watts (binary fractions, so that sums and differences stay exact in floats)
    frac = ch.choice("sb_frac", [0.0, 0.0, 0.0, 0.5, 0.25, 0.375])
    if frac:
        lo, hi, xlo, xhi = (v + math.copysign(frac, v) if v else v for v in (lo, hi, xlo, xhi))
    return {"lo": lo, "hi": hi, "xlo": xlo, "xhi": xhi}


def mk_sysbounds(sb: dict[str, Any], ts: Any) -> Any:
    from frequenz.sdk.timeseries._base_types import Bounds, SystemBounds

    return SystemBounds(
        timestamp=ts,
        inclusion_bounds=None if sb["lo"] is None else Bounds(W(sb["lo"]), W(sb["hi"])),
        exclusion_bounds=Bounds(W(sb["xlo"]), W(sb["xhi"])),
    )


def candidate_values(sb: dict[str, Any], live: list[dict[str, Any]]) -> list[float]:
    """Interesting power values: every interval end point in play, +-1 W around it, 0."""
    pts = {0.0}
    for v in (sb["lo"], sb["hi"], sb["xlo"], sb["xhi"]):
        if v is not None:
            pts.update({v, v - 1, v + 1})
    if sb["xlo"] != sb["xhi"]:
        pts.add((sb["xlo"] + sb["xhi"]) / 2)      # equidistant from both edges of the exclusion zone: a tie
    for p in live:
        for v in (p["lower"], p["upper"], p["pref"]):
            if v is not None:
                pts.update({v, v - 1, v + 1})
    return sorted(pts)


def gen_value(ch: Any, sb: dict[str, Any], live: list[dict[str, Any]]) -> float:
    if ch.chance("val_from_edges", 0.6):
        c = candidate_values(sb, live)
        return c[ch.draw("val_edge", len(c))]
    return float(ch.choice("val", VALS)) + ch.choice("val_frac", [0.0, 0.0, 0.0, 0.5, -0.25])


def gen_proposal(ch: Any, actor: dict[str, Any], sb: dict[str, Any], live: list[dict[str, Any]], now: float,
                 *, compatible_only: bool = False, inverted: bool = False) -> dict[str, Any]:
    pk = ch.weighted("prop_kind", [6, 2, 3, 1])  # pref only / bounds only / both / neither
    pref = gen_value(ch, sb, live) if pk in (0, 2) else None
    lower = upper = None
    if pk in (1, 2):
        bk = ch.weighted("bounds_kind", [3, 1, 1, 1] if inverted else [3, 1, 1])
        a, b = gen_value(ch, sb, live), gen_value(ch, sb, live)
        if bk == 0:
            lower, upper = min(a, b), max(a, b)
        elif bk == 1:
            lower = a
        elif bk == 2:
            upper = a
        else:
            # bounds incompatible with themselves (lower above upper): constructible, and inside C03's quantifier
            lower, upper = max(a, b), min(a, b)
    return {"actor": actor["name"], "prio": actor["prio"], "op": actor.get("op", False), "pref": pref,
            "lower": lower, "upper": upper, "t": now}


def mk_proposal(p: dict[str, Any], ids: frozenset[int]) -> Any:
    from frequenz.sdk.microgrid._power_managing import Proposal
    from frequenz.sdk.timeseries._base_types import Bounds

    return Proposal(source_id=p["actor"], preferred_power=W(p["pref"]), bounds=Bounds(W(p["lower"]), W(p["upper"])),
                    component_ids=ids, priority=p["prio"], creation_time=p["t"], set_operating_point=p["op"])


def pstr(p: dict[str, Any]) -> str:
    return f"{p['actor']}(prio {p['prio']}{' op' if p['op'] else ''}): pref={p['pref']} bounds=[{p['lower']},{p['upper']}]"


# ------------------------------------------------------------------------------ oracles
def in_envelope(target: float, sb: dict[str, Any]) -> str | None:
    """None if `target` respects the usable system bounds, else a description."""
    if sb["lo"] is None:
        return None if target == 0.0 else f"no inclusion bounds but target {target} W != 0"
    if not sb["lo"] - 1e-9 <= target <= sb["hi"] + 1e-9:
        return f"target {target} W outside inclusion bounds [{sb['lo']}, {sb['hi']}]"
    if target != 0.0 and sb["xlo"] + 1e-9 < target < sb["xhi"] - 1e-9:
        return f"target {target} W inside the exclusion zone ({sb['xlo']}, {sb['xhi']})"
    return None


def fresh_target(live: list[dict[str, Any]], sb: dict[str, Any], ids: frozenset[int], ts: Any,
                 order: list[int] | None = None, *, max_age: float = MAX_AGE_S) -> float | None:
    """Target of a brand-new Matryoshka fed only the live proposals (history-free reference)."""
    from frequenz.sdk.microgrid._power_managing._matryoshka import Matryoshka

    m = Matryoshka(max_proposal_age=timedelta(seconds=max_age))
    sysb = mk_sysbounds(sb, ts)
    seq = live if order is None else [live[i] for i in order]
    for p in seq:
        m.calculate_target_power(ids, mk_proposal(p, ids), sysb)
    return watts(m.calculate_target_power(ids, None, sysb, must_return_power=True))


def admissible_set(sb: dict[str, Any]) -> list[tuple[float, float]]:
    """System inclusion range minus the open exclusion zone: a union of <= 2 closed intervals."""
    if sb["lo"] is None:
        return []
    lo, hi, xlo, xhi = sb["lo"], sb["hi"], sb["xlo"], sb["xhi"]
    if xlo == 0.0 and xhi == 0.0:
        return [(lo, hi)]
    out = []
    if lo <= min(hi, xlo):
        out.append((lo, min(hi, xlo)))
    if max(lo, xhi) <= hi:
        out.append((max(lo, xhi), hi))
    return out


def narrow(a: list[tuple[float, float]], lower: float | None, upper: float | None) -> list[tuple[float, float]]:
    out = []
    for lo, hi in a:
        nlo = lo if lower is None else max(lo, lower)
        nhi = hi if upper is None else min(hi, upper)
        if nlo <= nhi:
            out.append((nlo, nhi))
    return out


def closest(a: list[tuple[float, float]], x: float) -> list[float]:
    """Point(s) of the union `a` closest to x (two on an exact tie)."""
    best: list[float] = []
    bd = math.inf
    for lo, hi in a:
        c = min(max(x, lo), hi)
        d = abs(c - x)
        if d < bd - 1e-12:
            best, bd = [c], d
        elif abs(d - bd) <= 1e-12 and c not in best:
            best.append(c)
    return best


def reference(live: list[dict[str, Any]], sb: dict[str, Any]) -> dict[str, Any]:
    """Reference model of the priority sweep, written from the statement of C04.

    Returns {"conflict_free": bool, "accept": set of acceptable targets, "A": {prio: admissible set
    available to that priority}}.  Requires distinct priorities.
    """
    a = admissible_set(sb)
    zero_ok = sb["lo"] is not None and sb["lo"] <= 0.0 <= sb["hi"]
    res: dict[str, Any] = {"conflict_free": bool(a), "accept": {0.0}, "A": {}}
    if not a:
        return res
    accept = {0.0}
    for p in sorted(live, key=lambda q: -q["prio"]):
        res["A"][p["prio"]] = list(a)
        if p["pref"] is not None:
            accept = set(closest(a, p["pref"]))
            if abs(p["pref"]) < 1e-9 and zero_ok and any(lo <= 0.0 <= hi for lo, hi in narrow(
                    [(sb["lo"], sb["hi"])], *_running_hull(a))):
                accept.add(0.0)
        a = narrow(a, p["lower"], p["upper"])
        if not a:
            res["conflict_free"] = False
            return res
    res["accept"] = accept
    return res


def _running_hull(a: list[tuple[float, float]]) -> tuple[float, float]:
    return min(lo for lo, _ in a), max(hi for _, hi in a)


# ------------------------------------------------------------------------------ actor-level harness
class ActorHarness:
    """Real PowerManagingActor with a fake bounds source and a fake distributor."""

    def __init__(self, sim: Sim, groups: list[frozenset[int]]) -> None:
        self.sim = sim
        self.groups = groups
        self.requests: list[dict[str, Any]] = []       # every Request seen by the fake distributor
        self.reports: dict[tuple[int, str], list[Any]] = {}  # (group idx, actor) -> reports received
        self.published: list[dict[str, Any]] = []      # bounds published (per group)
        self.actor: Any = None
        self._tasks: list[Any] = []
        self._pools: dict[Any, Any] = {}
        self.frontend = False

    async def start(self) -> None:
        from frequenz.channels import Broadcast
        from frequenz.client.microgrid import ComponentCategory
        from frequenz.sdk._internal._channels import ChannelRegistry
        from frequenz.sdk.microgrid import _data_pipeline
        from frequenz.sdk.microgrid._power_managing import PowerManagingActor

        sim = self.sim
        self.bounds_ch = {g: Broadcast(name=f"bounds{i}") for i, g in enumerate(self.groups)}
        self.bounds_tx = {g: c.new_sender() for g, c in self.bounds_ch.items()}
        harness = self

        class FakeBoundsPool:
            def __init__(self, component_ids: Any) -> None:
                self._system_power_bounds = harness.bounds_ch[frozenset(component_ids)]

        # the manager is the same actor for battery, EV-charger and PV pools; only where it subscribes to the system
        # bounds differs - all three pool factories are substituted and the category is drawn
        from frequenz.client.microgrid import InverterType

        self._orig_pools = {n: getattr(_data_pipeline, n) for n in ("new_battery_pool", "new_ev_charger_pool", "new_pv_pool")}
        for n in self._orig_pools:
            setattr(_data_pipeline, n, lambda *, priority, component_ids=None, **kw: FakeBoundsPool(component_ids))
        self.frontend = sim.ch.chance("battery_pool_frontend", 0.4)
        cat_k = sim.ch.weighted("component_category", [4, 1, 1])
        category, ctype = [(ComponentCategory.BATTERY, None), (ComponentCategory.EV_CHARGER, None),
                           (ComponentCategory.INVERTER, InverterType.SOLAR)][cat_k]
        if cat_k:
            sim.probe("manager_for_ev_or_pv_pool")
        self.prop_ch: Any = Broadcast(name="proposals")
        self.sub_ch: Any = Broadcast(name="report-subs")
        self.req_ch: Any = Broadcast(name="pd-requests")
        self.res_ch: Any = Broadcast(name="pd-results")
        self.reg = ChannelRegistry(name="pm-reg")
        req_rx = self.req_ch.new_receiver(limit=1000)
        self.actor = PowerManagingActor(
            self.prop_ch.new_receiver(limit=500), self.sub_ch.new_receiver(limit=100), self.req_ch.new_sender(),
            self.res_ch.new_receiver(limit=500), self.reg, component_category=category, component_type=ctype)
        self.prop_tx = self.prop_ch.new_sender()
        self.sub_tx = self.sub_ch.new_sender()
        self.res_tx = self.res_ch.new_sender()

        async def collect() -> None:
            async for r in req_rx:
                g = self.groups.index(frozenset(r.component_ids))
                rec = {"ev": sim.evno, "t": sim.now_us, "g": g, "power": r.power.as_watts(), "req": r}
                self.requests.append(rec)
                sim.ev("request", g, rec["power"])
                self.on_request(rec)

        self._tasks.append(sim.spawn(collect()))
        self.actor.start()

    def on_request(self, rec: dict[str, Any]) -> None:  # overridden by scenarios
        pass

    async def subscribe_reports(self, g: int, actor: dict[str, Any]) -> None:
        from frequenz.sdk.microgrid._power_managing import ReportRequest
        from frequenz.sdk.microgrid._power_managing._base_classes import _Report

        rr = ReportRequest(source_id=actor["name"], component_ids=self.groups[g], priority=actor["prio"],
                           set_operating_point=actor.get("op", False))
        rx = self.reg.get_or_create(_Report, rr.get_channel_name()).new_receiver(limit=2000)
        key = (g, actor["name"])
        self.reports[key] = []

        async def rd() -> None:
            async for rep in rx:
                self.reports[key].append(rep)

        self._tasks.append(self.sim.spawn(rd()))
        await self.sub_tx.send(rr)

    def publish_bounds(self, g: int, sb: dict[str, Any], *, stamp_back_us: int = 0) -> None:
        self.published.append({"ev": self.sim.evno, "t": self.sim.now_us, "g": g, "sb": sb})
        self.sim.ev("bounds", g, repr(sorted(sb.items())))
        self.sim.note(f"bounds group {g}: incl [{sb['lo']},{sb['hi']}] excl ({sb['xlo']},{sb['xhi']})")
        ts = self.sim.wall() - timedelta(microseconds=stamp_back_us)
        self.sim.spawn(self.bounds_tx[self.groups[g]].send(mk_sysbounds(sb, ts)))

    def propose(self, g: int, p: dict[str, Any]) -> None:
        self.sim.ev("proposal", g, p["actor"], p["pref"], p["lower"], p["upper"])
        self.sim.note(f"proposal group {g} {pstr(p)}")
        if self.frontend:
            self.sim.spawn(self._propose_through_pool(g, p))
        else:
            self.sim.spawn(self.prop_tx.send(mk_proposal(p, self.groups[g])))

    async def _propose_through_pool(self, g: int, p: dict[str, Any]) -> None:
        """The same proposal made the way client code makes it: through a BatteryPool's propose_power /
        propose_charge / propose_discharge (which of the equivalent calls is used is drawn)."""
        import types

        from frequenz.sdk.timeseries._base_types import Bounds
        from frequenz.sdk.timeseries.battery_pool import BatteryPool

        key = (g, p["actor"], p["op"])
        pool = self._pools.get(key)
        if pool is None:
            store = types.SimpleNamespace(_power_manager_requests_sender=self.prop_tx, _batteries=self.groups[g])
            pool = BatteryPool(pool_ref_store=store, name=p["actor"], priority=p["prio"], set_operating_point=p["op"])  # type: ignore[arg-type]
            pool._source_id = p["actor"]      # (the real one appends a uuid4: randomness, and irrelevant here)
            self._pools[key] = pool
        pref, lower, upper = p["pref"], p["lower"], p["upper"]
        ways = ["power"]
        if lower is None and upper is None:
            if pref is None:
                ways += ["charge", "discharge"]
            elif pref >= 0:
                ways.append("charge")
            if pref is not None and pref <= 0:
                ways.append("discharge")
        way = ways[self.sim.ch.draw("propose_via", len(ways))]
        self.sim.probe("proposal_via_battery_pool_" + way)
        if way == "power":
            await pool.propose_power(W(pref), bounds=Bounds(W(lower), W(upper)))
        elif way == "charge":
            await pool.propose_charge(W(pref))
        else:
            await pool.propose_discharge(None if pref is None else W(-pref))

    def send_result(self, kind: str, req: Any) -> None:
        from frequenz.sdk.microgrid._power_distributing import Error, PartialFailure, Success

        z = W(0.0)
        ids = set(req.component_ids)
        if kind == "success":
            r: Any = Success(request=req, succeeded_power=req.power, succeeded_components=ids, excess_power=z)
        elif kind == "partial":
            r = PartialFailure(request=req, succeeded_power=z, succeeded_components=set(), failed_power=req.power,
                               failed_components=ids, excess_power=z)
        else:
            r = Error(request=req, msg="fake distribution error")
        self.sim.ev("result", kind)
        self.sim.note(f"distribution result {kind} for request {req.power}")
        self.sim.spawn(self.res_tx.send(r))

    async def stop(self) -> None:
        from frequenz.sdk.microgrid import _data_pipeline

        for t in self._tasks:
            t.cancel()
        await self.actor.stop()
        for t in list(self.actor._bound_tracker_tasks.values()):
            t.cancel()
        for n, fn in self._orig_pools.items():
            setattr(_data_pipeline, n, fn)


async def until(sim: Sim, when_us: int) -> None:
    fut: asyncio.Future[None] = sim.loop.create_future()
    sim.loop.at_abs(when_us, lambda: fut.done() or fut.set_result(None))
    await fut
