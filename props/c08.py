"""C08 - resampled values use exactly the recent, non-future input samples.

A recording `resampling_function` (public ResamplerConfig field) stores the exact sequence it is
handed.  Per (source, tick T) that sequence is compared with a reference window computed from what the
source wrapper handed to the receiving task ("received"), using a persistent reference deque that
follows the documented buffer sizing rule (DESIGN C08).
"""

from __future__ import annotations

import asyncio
import math
from collections import deque
from datetime import datetime, timedelta, timezone
from typing import Any

from sim.env import Sim

ID = "C08"
REAL = ["Resampler.resample", "_ResamplingHelper (add_sample, _update_source_sample_period, _update_buffer_len, resample)",
        "_StreamingHelper._receive_samples", "frequenz.channels Timer"]
STUB = ["sources (async iterators fed by the harness)", "sinks", "recording resampling function (public config hook)"]
RULE = ("one run = one Resampler with drawn period (0.1-2 s), max_data_age_in_periods, initial/warn/max buffer length and 1-3 sources; "
        "equal timestamps with descending values; "
        "each source is a time-ordered stream with drawn inter-arrival gaps (bursts, silences longer than the max age, up- and "
        "down-sampling), stamps = arrival time / in the past / in the future / exactly on a tick / exactly T - max_age*period, "
        "values valid / None / NaN; non-trivial = some tick had a boundary-stamped, future-stamped or invalid sample or the "
        "buffer was resized; distinct = abstract digest of (sample kind, source) / tick sequence"
        " Also: periods of a day / 25 h, per-source UTC offsets of the stamps."
        " Also +-inf sample values (valid).")
QUICK_RUNS = 4000
THOROUGH_RUNS = 250_000
EXPECT_PROBES = ["equal_timestamps", "stamp_exactly_T", "stamp_exactly_lower_edge", "future_stamp", "none_or_nan_sample", "buffer_resized",
                 "buffer_limited_window", "empty_window", "silence_longer_than_max_age", "upsampling_period_known",
                 "samples_stamped_in_other_utc_offset", "period_of_a_day_or_more",
                 "infinite_sample_value"]


def _us(td: timedelta) -> int:
    return (td.days * 86400 + td.seconds) * 1_000_000 + td.microseconds


def scenario(sim: Sim) -> None:
    from frequenz.quantities import Quantity
    from frequenz.sdk.timeseries import Sample
    from frequenz.sdk.timeseries._resampling import Resampler, ResamplerConfig

    ch = sim.ch
    period_us = ch.choice("period", [1_000_000, 500_000, 2_000_000, 100_000, 300_000, 1_000_000, 500_000, 2_000_000, 100_000,
                                     300_000, 86_400_000_000, 90_000_000_000])      # ... and, rarely, one day / 25 hours
    gscale = period_us // 1_000_000 if period_us > 2_000_000 else 1
    if gscale > 1:
        sim.probe("period_of_a_day_or_more")
    period_s = period_us / 1e6
    max_age = ch.choice("max_age", [1.0, 1.5, 2.0, 3.0])
    warn_len = ch.choice("warn_len", [4, 8, 128])
    max_len = warn_len + ch.choice("max_extra", [1, 8])
    init_len = min(ch.choice("init_len", [1, 2, 4, 16]), warn_len)
    nsrc = ch.int_between("nsources", 1, 3)
    ticks = ch.int_between("nticks", 10, sim.scale(40, 100))
    pre = ch.int_between("pre_us", 0, 2 * period_us)
    cost = ch.weighted("cost_mode", [2, 1, 2])
    sim.set_cost_mode(cost, ch.draw("cost_seed", 1 << 16) if cost == 2 else 0)
    stall_p = ch.choice("stall_p", [0.0, 0.0, 0.01])
    sim.config.update(period_us=period_us, max_age=max_age, init_len=init_len, warn_len=warn_len, max_len=max_len,
                      nsrc=nsrc, ticks=ticks)
    sim.note(f"period={period_us}us max_age={max_age} buffers init/warn/max={init_len}/{warn_len}/{max_len} sources={nsrc}")
    sim.loop.max_now_us = max(sim.loop.max_now_us, 3 * (ticks + 12) * period_us)
    max_age_us = round(max_age * period_us)

    class Src:
        """Async-iterator source; records what it hands to the receiving task."""

        def __init__(self, idx: int) -> None:
            self.idx = idx
            self.q: asyncio.Queue[Any] = asyncio.Queue()
            self.received: list[tuple[int, datetime, bool]] = []
            self.calls: list[list[float]] = []
            self.model: deque[tuple[int, datetime]] = deque(maxlen=init_len)
            self.fed = 0
            self.resized = False
            self.ci = 0
            self.ticks_seen = 0

        def __aiter__(self) -> "Src":
            return self

        async def __anext__(self) -> Any:
            s, sid, valid = await self.q.get()
            self.received.append((sid, s.timestamp, valid))
            return s

    srcs = [Src(i) for i in range(nsrc)]
    cur: dict[str, Any] = {"src": None}

    sid_of: dict[int, float] = {}     # id(Sample object) -> sample id (the objects are kept alive in `keep`)
    keep: list[Any] = []

    def fn(samples: Any, cfg: Any, props: Any) -> float:
        # which source this call belongs to is known from the sample ids (disjoint id ranges per source); a sample
        # whose value is +-inf (valid: neither None nor NaN) is recognised by identity, else by its value
        ids = [sid_of.get(id(s), s.value.base_value) for s in samples]
        src = srcs[int(ids[0]) // 1_000_000]
        src.calls.append(ids)
        for s in samples:
            if s.value is None or s.value.isnan():
                sim.violation("invalid_sample_passed", {"what": "None/NaN handed to the resampling function"}, str(ids))
        return 1.0

    def make_sink(src: Src, rs: Any) -> Any:
        async def sink(sample: Any) -> None:
            T = sample.timestamp
            src.ticks_seen += 1
            sim.ev("tick", src.idx, _us(T - sim.epoch))
            props = rs.get_source_properties(src)
            m = src.model
            while src.fed < len(src.received):
                sid, ts, valid = src.received[src.fed]
                src.fed += 1
                if valid:
                    m.append((sid, ts))
            sp = props.sampling_period
            if sp is not None and not src.resized:
                ips = sp.total_seconds()
                new = math.ceil(ips * max_age) if ips > period_s else math.ceil(period_s / ips * max_age)
                new = min(max(1, new), max_len)
                src.resized = True
                if ips > period_s:
                    sim.probe("upsampling_period_known")
                if new != m.maxlen:
                    sim.probe("buffer_resized")
                    sim.nontrivial = True
                    src.model = m = deque(m, maxlen=new)
            P_us = max(period_us, _us(sp)) if sp is not None else period_us
            P = timedelta(microseconds=P_us)
            lo = T - P * max_age
            in_window_all = [(sid, ts) for (sid, ts, valid) in src.received if valid and lo < ts <= T]
            exp = [float(sid) for (sid, ts) in m if lo < ts <= T]
            if len(exp) < len(in_window_all):
                sim.probe("buffer_limited_window")
            if any(ts == T for _, ts in m):
                sim.probe("stamp_exactly_T")
            if any(ts == lo for _, ts in m):
                sim.probe("stamp_exactly_lower_edge")
            if not exp:
                sim.probe("empty_window")
                if sample.value is not None:
                    sim.violation("none_iff_empty", {"direction": "value_but_empty_window"},
                                  f"source {src.idx} tick {T}: no received valid sample in ({lo}, {T}] but value "
                                  f"{sample.value} emitted (buffer cap {m.maxlen}, input period {sp})")
                return
            got = src.calls[src.ci] if src.ci < len(src.calls) else None
            src.ci += 1
            if got != exp:
                _classify(sim, src, got, exp, T, lo, m, sp)
            if sample.value is None:
                sim.violation("none_iff_empty", {"direction": "none_but_nonempty_window"},
                              f"source {src.idx} tick {T}: window has {len(exp)} samples but None was emitted")

        return sink

    async def main() -> None:
        if pre:
            await asyncio.sleep(pre / 1e6)
        cfg = ResamplerConfig(resampling_period=timedelta(microseconds=period_us), max_data_age_in_periods=max_age,
                              resampling_function=fn, initial_buffer_len=init_len, warn_buffer_len=warn_len,
                              max_buffer_len=max_len)
        rs = Resampler(cfg)
        for src in srcs:
            rs.add_timeseries(f"src{src.idx}", src, make_sink(src, rs))
        task = sim.spawn(rs.resample())
        end_us = sim.now_us + ticks * period_us

        async def produce(src: Src) -> None:
            n = 0
            # sample ids (= values) ascend or descend: with equal timestamps the arrival order must win, not the value
            descending = bool(ch.draw("descending_ids", 2))
            last_ts = sim.wall() - timedelta(seconds=10)
            gaps = ch.choice("gap_profile", [[50_000, 200_000], [100_000, 900_000], [700_000, 2_500_000],
                                             [2_000_000, 5_000_000], [10_000, 60_000]])
            gaps = [gaps[0] * gscale, gaps[1] * gscale]
            # the device stamps its samples in its own UTC offset (same instants, other tzinfo)
            src_tz = [None, None, timezone(timedelta(hours=2)), timezone(-timedelta(hours=5))][ch.draw("source_utc_offset", 4)]
            if src_tz is not None:
                sim.probe("samples_stamped_in_other_utc_offset")
            while sim.now_us < end_us:
                n += 1
                sid = src.idx * 1_000_000 + (900_000 - n if descending else n)
                mode = ch.weighted("stamp_mode", [8, 2, 2, 2, 2])
                now = sim.wall()
                if mode == 0:
                    ts = now
                elif mode == 1:
                    ts = now - timedelta(microseconds=ch.int_between("past_us", 1, 2 * period_us))
                elif mode == 2:
                    ts = now + timedelta(microseconds=ch.int_between("future_us", 1, 2 * period_us))
                else:
                    # snap to the tick grid (UNIX_EPOCH aligned): the next tick T, or T - max_age*period
                    since = _us(now - datetime.fromtimestamp(0, tz=now.tzinfo))
                    nxt_tick = now + timedelta(microseconds=(period_us - since % period_us) % period_us)
                    ts = nxt_tick if mode == 3 else nxt_tick + timedelta(microseconds=period_us) - timedelta(microseconds=max_age_us)
                ts = max(ts, last_ts)
                if src_tz is not None:
                    ts = ts.astimezone(src_tz)
                if ts == last_ts:
                    sim.probe("equal_timestamps")
                if ts > now:
                    sim.probe("future_stamp")
                    sim.nontrivial = True
                last_ts = ts
                vk = ch.weighted("value_kind", [12, 1, 1, 1])
                val = Quantity(float(sid)) if vk == 0 else (None if vk == 1 else Quantity(math.nan))
                if vk == 3:
                    # an infinite value is a value (neither None nor NaN): it takes part like any other sample
                    val = Quantity(math.inf if ch.draw("inf_sign", 2) else -math.inf)
                    sim.probe("infinite_sample_value")
                elif vk:
                    sim.probe("none_or_nan_sample")
                    sim.nontrivial = True
                sim.ev("sample", f"{src.idx}:{mode}:{vk}", _us(ts - sim.epoch))
                smp = Sample(ts, val)
                keep.append(smp)
                sid_of[id(smp)] = float(sid)
                src.q.put_nowait((smp, sid, vk in (0, 3)))
                g = ch.weighted("gap_kind", [10, 2, 1])
                if g == 0:
                    d = ch.int_between("gap_us", gaps[0], gaps[1])
                elif g == 1:
                    d = ch.int_between("burst_gap_us", 0, 2000)
                else:
                    d = ch.int_between("silence_us", max_age_us, 3 * max_age_us + period_us)
                    sim.probe("silence_longer_than_max_age")
                await asyncio.sleep(d / 1e6)
                if stall_p and ch.chance("stall", stall_p):
                    sim.stall(ch.int_between("stall_us", 1000, 3 * period_us))

        prods = [sim.spawn(produce(s)) for s in srcs]
        await asyncio.gather(*prods)
        await asyncio.sleep((2 * period_us + period_us // 3) / 1e6)
        if task.done() and not task.cancelled():
            sim.violation("liveness", {"what": "resample() ended"}, repr(task.exception()))
        task.cancel()
        await rs.stop()
        for s in srcs:
            if s.ticks_seen < ticks - 6:
                sim.violation("liveness", {"what": "too few ticks"}, f"source {s.idx}: {s.ticks_seen} ticks in {ticks} periods")

    sim.run(main())


def _classify(sim: Sim, src: Any, got: list[float] | None, exp: list[float], T: Any, lo: Any, m: Any, sp: Any) -> None:
    """Report the specific sub-clause that failed."""
    ts_of = {float(sid): ts for sid, ts, _ in src.received}
    detail = (f"source {src.idx} tick T={T}: function got {got}, expected {exp} (window ({lo}, {T}], buffer cap "
              f"{m.maxlen}, input period {sp})")
    if got is None:
        sim.violation("window_contents", {"what": "function not called for a non-empty window"}, detail)
    assert got is not None
    extra = [g for g in got if g not in exp]
    missing = [e for e in exp if e not in got]
    for g in extra:
        ts = ts_of.get(g)
        if ts is None:
            sim.violation("window_contents", {"what": "unknown sample"}, detail)
        if ts > T:
            sim.violation("window_contents", {"what": "future sample passed"}, detail + f"; sample {g} stamped {ts} > T")
        if ts <= lo:
            what = "sample exactly at lower edge passed" if ts == lo else "too old sample passed"
            sim.violation("window_contents", {"what": what}, detail + f"; sample {g} stamped {ts}")
        sim.violation("window_contents", {"what": "sample beyond the buffer limit passed"}, detail)
    for e in missing:
        ts = ts_of[e]
        what = "sample stamped exactly T dropped" if ts == T else "in-window sample dropped"
        sim.violation("window_contents", {"what": what}, detail + f"; sample {e} stamped {ts}")
    sim.violation("window_contents", {"what": "arrival order broken"}, detail)


# --------------------------------------------------------------------------- in-process mutants
def _patch_resample(upper: str, lower: str) -> Any:
    from bisect import bisect, bisect_left
    import itertools

    from frequenz.quantities import Quantity
    from frequenz.sdk.timeseries import Sample
    from frequenz.sdk.timeseries import _resampling as rsm

    orig = rsm._ResamplingHelper.resample

    def resample(self: Any, timestamp: Any) -> Any:
        if self._update_source_sample_period(timestamp):
            self._update_buffer_len()
        conf, props = self._config, self._source_properties
        period = max(conf.resampling_period, props.sampling_period) if props.sampling_period is not None \
            else conf.resampling_period
        mn = timestamp - period * conf.max_data_age_in_periods
        lo_f = bisect if lower == "right" else bisect_left
        hi_f = bisect if upper == "right" else bisect_left
        min_index = lo_f(self._buffer, mn, key=lambda s: s.timestamp)
        max_index = hi_f(self._buffer, timestamp, key=lambda s: s.timestamp)
        rel = list(itertools.islice(self._buffer, min_index, max_index))
        value = conf.resampling_function(rel, conf, props) if rel else None
        return Sample(timestamp, None if value is None else Quantity(value))

    rsm._ResamplingHelper.resample = resample  # type: ignore[method-assign]
    return lambda: setattr(rsm._ResamplingHelper, "resample", orig)


def _mut_upper_edge_exclusive() -> Any:
    return _patch_resample("left", "right")


def _mut_lower_edge_inclusive() -> Any:
    return _patch_resample("right", "left")


def _mut_nan_not_filtered() -> Any:
    from frequenz.sdk.timeseries import _resampling as rsm

    orig = rsm._StreamingHelper._receive_samples

    async def recv(self: Any) -> None:
        async for sample in self._source:
            if sample.value is not None:
                self._helper.add_sample(sample)

    rsm._StreamingHelper._receive_samples = recv  # type: ignore[method-assign]
    return lambda: setattr(rsm._StreamingHelper, "_receive_samples", orig)


def _mut_always_resampling_period() -> Any:
    """Window always max_age * resampling period, even when the input period is longer."""
    from frequenz.sdk.timeseries import _resampling as rsm

    orig = rsm._ResamplingHelper._update_source_sample_period

    def upd(self: Any, now: Any) -> bool:
        r = orig(self, now)
        return r

    class _P:
        pass

    orig_res = rsm._ResamplingHelper.resample

    def resample(self: Any, timestamp: Any) -> Any:
        props = self._source_properties
        saved = props.sampling_period
        out = None
        if self._update_source_sample_period(timestamp):
            self._update_buffer_len()
        saved = props.sampling_period
        if saved is not None and saved > self._config.resampling_period:
            props.sampling_period = self._config.resampling_period
            try:
                out = orig_res(self, timestamp)
            finally:
                props.sampling_period = saved
            return out
        return orig_res(self, timestamp)

    rsm._ResamplingHelper.resample = resample  # type: ignore[method-assign]
    return lambda: setattr(rsm._ResamplingHelper, "resample", orig_res)


MUTANTS = {"upper_edge_exclusive": _mut_upper_edge_exclusive, "lower_edge_inclusive": _mut_lower_edge_inclusive,
           "nan_not_filtered": _mut_nan_not_filtered, "always_resampling_period": _mut_always_resampling_period}
