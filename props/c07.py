"""C07 - resampled timeline is aligned, gap-free and shared by all series.

Real: Resampler (resample loop, _calculate_window_end, hand-aligned Timer(TriggerAllMissed)), and in
the actor variant ComponentMetricsResamplingActor + ChannelRegistry.  Stub: sources, sinks, data
sourcing.  The simulator decides the creation instant relative to the alignment grid (exactly on it,
1 us around it, anywhere), how late the timer fires (stalls of up to 4 periods, exactly one period),
how long each sink takes (0 .. 3.5 periods) and when series are added.
"""

from __future__ import annotations

import asyncio
from datetime import datetime, timedelta, timezone
from typing import Any

from sim.env import Sim

ID = "C07"
REAL = ["Resampler.__init__/_calculate_window_end/resample", "frequenz.channels Timer(TriggerAllMissed)",
        "_StreamingHelper/_ResamplingHelper", "ComponentMetricsResamplingActor (actor variant)", "ChannelRegistry"]
STUB = ["sources (channels fed by the harness)", "sinks (recording, with drawn latency)", "data sourcing actor"]
RULE = ("one run = one Resampler (or resampling actor, or MovingWindow) with drawn period, align_to (UNIX_EPOCH / None / past / future / "
        "in a daylight-saving zone), sources 1.4x / 4x / 10x faster than the period or delivering only every 3rd-5th period, stamps "
        "= arrival time or a few us before the window end, max age 2 or 4 periods, a consumer slower than the period for half "
        "the run (loop lags several periods), series removed / their source stopped / duplicate requests, "
        "creation instant on/around/off the grid, 1-3 series at creation plus series added while running, per-call sink "
        "latency 0..3.5 periods, loop stalls up to 4 periods (incl. exactly one period), then a calm phase; non-trivial = "
        "some tick fired at least half a period late or a series was added while running; distinct = abstract digest "
        "of (tick/add/stall, series) sequence"
        " Also: 30-70 series in 6% of runs, resample() started 0-5.25 periods after construction, a sample counts"
        " as delivered when the sink call returns."
        " MovingWindow variant: input period a quarter of or equal to the resampling period.")
QUICK_RUNS = 4000
THOROUGH_RUNS = 250_000
EXPECT_PROBES = ["created_on_grid", "created_1us_before_grid", "created_1us_after_grid", "tick_late_ge_1_period",
                 "series_added_while_running", "slow_sink", "stall_exactly_one_period", "actor_resample_restarted",
                 "moving_window_variant", "align_to_in_dst_zone", "wall_clock_ticks_between_reads",
                 "resample_restarted_by_driver", "series_added_during_tick", "series_removed_while_running",
                 "slow_source", "source_stopped", "fast_source", "loop_lags_behind",
                 "sample_stamped_just_before_window_end", "more_than_32_series",
                 "resample_started_late", "moving_window_input_period_equals_resampling_period"]

UNIX_EPOCH = datetime.fromtimestamp(0.0, tz=timezone.utc)
PERIODS_US = [200_000, 1_000_000, 1_500_000, 3_000_000, 7_300_000]


def _us(td: timedelta) -> int:
    return (td.days * 86400 + td.seconds) * 1_000_000 + td.microseconds


class Recorder:
    def __init__(self, sim: Sim, period_us: int) -> None:
        self.sim = sim
        self.period_us = period_us
        self.ticks: dict[str, list[int]] = {}      # series -> tick timestamps (us since sim.epoch)
        self.emit_us: dict[str, list[int]] = {}
        self.at_creation: set[str] = set()
        self.active_sinks = 0
        self.late = False
        self.removed: dict[str, int] = {}

    def record(self, name: str, ts: datetime) -> None:
        t = _us(ts - self.sim.epoch)
        self.ticks.setdefault(name, []).append(t)
        self.emit_us.setdefault(name, []).append(self.sim.now_us)
        self.sim.ev("tick", name, t)
        lateness = self.sim.now_us - t
        if lateness >= self.period_us:
            self.sim.probe("tick_late_ge_1_period")
        if lateness >= self.period_us // 2:
            self.sim.nontrivial = True


def _check(sim: Sim, rec: Recorder, period_us: int, align_to: datetime | None, creation: tuple[int, int], variant: str,
           calm_end_us: int) -> None:
    # creation = (clock before the constructor call, clock after it): identical unless reading the wall clock
    # costs time, in which case the resampler's own "now" lies somewhere in between
    creation_us, creation_hi = creation
    sig = {"variant": variant}
    all_ticks = sorted({t for ts in rec.ticks.values() for t in ts})
    # global tick sequence must itself be gap-free
    for a, b in zip(all_ticks, all_ticks[1:]):
        if b - a != period_us:
            sim.violation("gap_free", dict(sig, what="global tick sequence"),
                          f"consecutive tick timestamps {a} and {b} us differ by {b - a} us, period is {period_us} us")
    for name, ts in rec.ticks.items():
        for j, (a, b) in enumerate(zip(ts, ts[1:])):
            if b - a != period_us:
                kind = "duplicate" if b == a else ("reordered" if b < a else "skipped")
                sim.violation("gap_free", dict(sig, what=kind),
                              f"series {name}: tick {j} at {a} us followed by {b} us (delta {b - a}, period {period_us})")
        if align_to is not None:
            for t in ts[:3] + ts[-1:]:
                off = (_us(sim.epoch - align_to) + t) % period_us
                if off:
                    sim.violation("aligned", sig, f"series {name}: timestamp epoch+{t} us is {off} us off the grid "
                                                  f"align_to + k*{period_us} us")
        elif ts and not any((ts[0] - c) % period_us == 0 for c in range(creation_us, creation_hi + 1)):
            sim.violation("aligned", dict(sig, align="none"),
                          f"series {name}: align_to=None, creation at {creation_us} us, first tick {ts[0]} us")
        if name in rec.at_creation and ts:
            if not creation_us < ts[0] <= creation_hi + 2 * period_us:
                sim.violation("first_tick_window", sig,
                              f"series {name} present at creation ({creation_us} us): first tick at {ts[0]} us, expected in "
                              f"({creation_us}, {creation_us + 2 * period_us}] (period {period_us})")
        if ts:
            i0 = all_ticks.index(ts[0])
            if name in rec.removed:
                # a removed series holds a contiguous run of the global sequence (it stops at its removal)
                if all_ticks[i0:i0 + len(ts)] != ts:
                    sim.violation("shared_timeline", dict(sig, what="removed series"),
                                  f"series {name}: its ticks {ts[:5]}.. are not a contiguous run of the global sequence")
            elif all_ticks[i0:i0 + len(ts)] != ts or (i0 + len(ts) != len(all_ticks)):
                sim.violation("shared_timeline", sig,
                              f"series {name}: its {len(ts)} ticks starting at {ts[0]} are not a contiguous suffix of the "
                              f"global tick sequence ({len(all_ticks)} ticks, last {all_ticks[-1]}, series last {ts[-1]})")
    for name in rec.at_creation:
        if not rec.ticks.get(name) and name not in rec.removed:
            sim.violation("liveness", dict(sig, what="no tick at all"), f"series {name} never received a sample")
    # bounded liveness after the last injected delay: the timeline has caught up with the clock
    if all_ticks and calm_end_us - all_ticks[-1] >= 2 * period_us:
        sim.violation("liveness", dict(sig, what="not caught up after calm phase"),
                      f"last tick {all_ticks[-1]} us, clock {calm_end_us} us, period {period_us} us")


def scenario(sim: Sim) -> None:
    ch = sim.ch
    variant = ["raw", "actor", "moving_window"][ch.weighted("variant", [6, 3, 1])]
    period_us = ch.choice("period", PERIODS_US)
    period = timedelta(microseconds=period_us)
    ak = ch.weighted("align_kind", [4, 2, 2, 2, 1])
    if ak == 0:
        align_to: datetime | None = UNIX_EPOCH
    elif ak == 1:
        align_to = None
    elif ak == 2:
        align_to = sim.epoch - timedelta(microseconds=ch.int_between("align_past_us", 1, 50_000_000))
    elif ak == 3:
        align_to = sim.epoch + timedelta(microseconds=ch.int_between("align_future_us", 1, 50_000_000))
    else:
        # align_to given in a zone that observes daylight saving, on the other side of a clock change than "now"
        # (still one fixed instant: the grid is align_to + k * period in absolute time)
        from zoneinfo import ZoneInfo

        align_to = datetime(2023, 7, 1, 0, 0, tzinfo=ZoneInfo("Europe/Berlin")) + timedelta(
            microseconds=ch.int_between("align_dst_us", 0, 7_000_000))
        sim.probe("align_to_in_dst_zone")
    # ---- creation instant relative to the grid
    ck = ch.weighted("creation_kind", [3, 2, 1, 1])
    pre = ch.int_between("pre_us", 0, 3 * period_us)
    if align_to is not None and ck != 0:
        phase = (_us(sim.epoch - align_to) + pre) % period_us
        pre += (period_us - phase) % period_us            # now exactly on the grid
        if ck == 2:
            pre += period_us - 1
            sim.probe("created_1us_before_grid")
        elif ck == 3:
            pre += 1
            sim.probe("created_1us_after_grid")
        else:
            sim.probe("created_on_grid")
    nticks = ch.int_between("nticks", 6, sim.scale(30, 80))
    cost = ch.weighted("cost_mode", [2, 1, 2])
    sim.set_cost_mode(cost, ch.draw("cost_seed", 1 << 16) if cost == 2 else 0)
    sim.config.update(variant=variant, period_us=period_us, align=str(align_to), pre_us=pre, nticks=nticks, cost=cost)
    sim.note(f"{variant} period={period_us}us align_to={align_to} create at +{pre}us")
    if ch.chance("clock_ticks_between_reads", 0.2):
        from frequenz.sdk.timeseries import _resampling as _rsm

        sim.tick_wall_clock_on_read(_rsm, ch.choice("clock_tick_us", [1, 137, 2500]))
        sim.probe("wall_clock_ticks_between_reads")
    rec = Recorder(sim, period_us)
    sim.loop.max_now_us = (pre + (nticks + 40) * period_us) * 3 + 600_000_000

    def stalls_plan(t_end: int) -> None:
        nst = ch.weighted("nstalls", [3, 3, 2, 1])
        for _ in range(nst):
            at = ch.int_between("stall_at", 0, max(1, t_end))
            k = ch.weighted("stall_kind", [3, 2, 2, 1])
            if k == 0:
                dur = ch.int_between("stall_us", 1, period_us // 2)
            elif k == 1:
                dur = period_us
                sim.probe("stall_exactly_one_period")
            elif k == 2:
                dur = ch.int_between("stall_us2", period_us, 4 * period_us)
            else:
                # stall that ends exactly at a tick boundary +-1us
                dur = period_us + ch.draw("stall_pm", 3) - 1

            def do(d: int = dur) -> None:
                sim.ev("stall", "", d)
                sim.note(f"stall {d}us")
                sim.stall(d)

            sim.loop.at_abs(pre + at, do)

    async def main_raw() -> None:
        from frequenz.channels import Broadcast
        from frequenz.quantities import Quantity
        from frequenz.sdk.timeseries import Sample
        from frequenz.sdk.timeseries._resampling import Resampler, ResamplerConfig

        if pre:
            await _until(sim, pre)
        creation_us = sim.now_us
        cfg = ResamplerConfig(resampling_period=period, align_to=align_to,
                              max_data_age_in_periods=ch.choice("max_age_periods", [2.0, 4.0]))
        rs = Resampler(cfg)
        creation = (creation_us, sim.now_us)
        run_us = nticks * period_us
        stalls_plan(run_us)
        sources: list[Any] = []

        def add_series(name: str) -> None:
            c: Broadcast[Any] = Broadcast(name=name)
            rx_ = c.new_receiver()
            sources.append((c, c.new_sender(), name, rx_))
            # 3: a consumer that is slower than the period for the whole first half of the run - the loop falls behind
            # by several periods for sure, and series added then join a loop that resamples windows of the past
            slow = ch.weighted("sink_profile", [3, 2, 1, 1])

            async def latency(slow: int) -> None:
                if slow == 0 or sim.now_us > pre + run_us:
                    return
                if slow == 3:
                    if sim.now_us < pre + run_us // 2:
                        sim.probe("loop_lags_behind")
                        sim.fault("slow_sink")
                        await asyncio.sleep(ch.int_between("sink_lag_us", period_us, 3 * period_us) / 1e6)
                    return
                k = ch.weighted("sink_latency", [5, 2, 2] if slow == 1 else [2, 2, 4])
                if k == 1:
                    await asyncio.sleep(ch.int_between("sink_eps_us", 0, 2000) / 1e6)
                elif k == 2:
                    sim.probe("slow_sink")
                    sim.fault("slow_sink")
                    await asyncio.sleep(ch.int_between("sink_slow_us", period_us // 4, period_us * 7 // 2) / 1e6)

            async def sink(sample: Any, name: str = name, slow: int = slow) -> None:
                # a slow consumer (think: a bounded queue that is full): the sample counts as delivered when the sink
                # call returns - a sink call that is abandoned half-way has not delivered it
                rec.active_sinks += 1
                try:
                    await latency(slow)
                    rec.record(name, sample.timestamp)
                finally:
                    rec.active_sinks -= 1

            rs.add_timeseries(name, rx_, sink)

        n0 = ch.int_between("series_at_creation", 1, 3)
        if ch.chance("many_series", 0.06):
            n0 = ch.int_between("series_at_creation_many", 30, 70)      # "any number of series"
            sim.probe("more_than_32_series")
        for i in range(n0):
            add_series(f"s{i}")
            rec.at_creation.add(f"s{i}")
        # Either plain `resample()` (series are then added only while it waits on the timer), or a driver that calls
        # resample() again whenever it ends with an error - what ComponentMetricsResamplingActor does and what the
        # docstring prescribes - in which case series are added and removed at any time, also while a slow sink of
        # the current tick is still suspended (resample() then ends with an IndexError on the unchanged tree, after
        # having advanced its window end; the timeline must survive that).
        driven = ch.chance("driver_restarts_resample", 0.4)
        removed: set[str] = set()

        async def driver() -> None:
            while True:
                try:
                    await rs.resample()
                except asyncio.CancelledError:
                    raise
                except Exception:  # pylint: disable=broad-except
                    sim.probe("resample_restarted_by_driver")
                    sim.ev("resample_restart", "")
                    continue
                return

        # resample() need not be awaited right after construction (the actor and MovingWindow construct the Resampler
        # in __init__ and start later): the timeline is anchored at creation all the same, late windows come in a burst
        start_late = ch.choice("resample_started_after_periods", [0, 0, 0, 0.75, 2.5, 5.25])
        if start_late:
            sim.probe("resample_started_late")
            await _until(sim, sim.now_us + int(start_late * period_us))
        task = sim.spawn(driver() if driven else rs.resample())
        nadd = ch.weighted("n_added", [3, 2, 1]) + (1 if driven else 0)
        pending_adds = sorted(pre + ch.int_between("add_at", 0, run_us) for _ in range(nadd))
        added = [0]
        if driven and len(sources) > 1 and ch.chance("remove_a_series", 0.4):
            victim = ch.draw("remove_which", len(sources))

            def do_remove() -> None:
                c, _tx, name, rx = sources[victim]
                if rs.remove_timeseries(rx):
                    removed.add(name)
                    rec.removed[name] = sim.now_us
                    sim.probe("series_removed_while_running")
                    if rec.active_sinks:
                        sim.probe("series_removed_during_tick")
                    sim.ev("remove", name)
                    sim.note(f"remove series {name}")

            sim.loop.at_abs(pre + ch.int_between("remove_at", 0, run_us), do_remove)

        def on_idle() -> None:
            while pending_adds and pending_adds[0] <= sim.now_us and (driven or rec.active_sinks == 0):
                if rec.active_sinks:
                    sim.probe("series_added_during_tick")
                pending_adds.pop(0)
                added[0] += 1
                name = f"a{added[0]}"
                sim.ev("add", name)
                sim.note(f"add series {name}")
                sim.probe("series_added_while_running")
                sim.nontrivial = True
                add_series(name)

        sim.loop.idle_hooks.append(on_idle)
        if driven:
            for t_add in list(pending_adds):
                sim.loop.at_abs(t_add, on_idle)     # also in the middle of a tick, not only at idle points

        slow_every = ch.choice("slow_source_every", [0, 0, 3, 5])     # 0: all sources equally fast
        if slow_every:
            sim.probe("slow_source")

        # source rate: a bit faster than the resampling period, or 4x / 10x faster (down-sampling: a series added
        # while the loop lags behind then has a full buffer of samples newer than the window being resampled)
        feed_frac = ch.choice("source_interval_in_periods", [0.7, 0.7, 0.25, 0.1])
        if feed_frac < 0.5:
            sim.probe("fast_source")

        # fast sources whose samples are stamped a few microseconds before the window ends (one sample per period
        # at grid - delta, the others evenly in between): boundary between "in this window" and "in the next one"
        near_grid = 0
        if feed_frac < 0.5 and align_to is not None and ch.chance("stamps_just_before_grid", 0.4):
            near_grid = ch.choice("stamp_delta_us", [1, 1, 2, 5])
            sim.probe("sample_stamped_just_before_window_end")

        async def feeder() -> None:
            n = 0
            rnd = 0
            per = round(1 / feed_frac)
            step = period_us // per
            base = creation_us + (period_us - (_us(sim.epoch - align_to) + creation_us) % period_us) % period_us \
                + period_us - near_grid if near_grid else 0
            while True:
                if near_grid:
                    await _until(sim, base + (rnd // per) * period_us + (rnd % per) * step)
                    stamp = sim.epoch + timedelta(microseconds=base + (rnd // per) * period_us + (rnd % per) * step)
                else:
                    await asyncio.sleep(period_us / 1e6 * feed_frac)
                    stamp = None
                rnd += 1
                for j, src in enumerate(list(sources)):
                    if slow_every and j % 2 == 0 and rnd % slow_every:
                        continue      # this source delivers only every few periods (up-sampling)
                    n += 1
                    await src[1].send(Sample(stamp or sim.wall(), Quantity(float(n))))

        ft = sim.spawn(feeder())
        await _until(sim, pre + run_us)
        # calm phase: no more stalls or slow sinks are started; let running sinks finish and catch up
        # (+1/3 period: never cancel exactly at a tick instant - frequenz.channels' Timer.ready() swallows a
        # CancelledError that arrives while it cleans up its helper tasks; a dependency bug, out of scope)
        await _calm(sim, period_us, align_to, creation[0])
        sim.loop.idle_hooks.remove(on_idle)
        calm_end = sim.now_us
        if task.done():
            exc = task.exception() if not task.cancelled() else None
            sim.violation("liveness", {"variant": variant, "what": "resample() ended"}, f"resample() ended: {exc!r}")
        task.cancel()
        ft.cancel()
        await rs.stop()
        _check(sim, rec, period_us, align_to, creation, variant, calm_end)

    async def main_actor() -> None:
        from frequenz.channels import Broadcast
        from frequenz.client.microgrid import ComponentMetricId
        from frequenz.quantities import Quantity
        from frequenz.sdk._internal._channels import ChannelRegistry
        from frequenz.sdk.microgrid._data_sourcing import ComponentMetricRequest
        from frequenz.sdk.microgrid._resampling import ComponentMetricsResamplingActor
        from frequenz.sdk.timeseries import Sample
        from frequenz.sdk.timeseries._resampling import ResamplerConfig

        if pre:
            await _until(sim, pre)
        creation_us = sim.now_us
        reg = ChannelRegistry(name="reg")
        ds_ch: Broadcast[Any] = Broadcast(name="ds-req")
        rs_ch: Broadcast[Any] = Broadcast(name="rs-req")
        ds_rx = ds_ch.new_receiver(limit=500)
        cfg = ResamplerConfig(resampling_period=period, align_to=align_to, max_data_age_in_periods=2.0)
        actor = ComponentMetricsResamplingActor(channel_registry=reg, data_sourcing_request_sender=ds_ch.new_sender(),
                                                resampling_request_receiver=rs_ch.new_receiver(limit=500), config=cfg)
        creation = (creation_us, sim.now_us)
        restarts = [0]
        orig_log = actor._log_resampling_task_error

        def counting_log(task: Any) -> None:
            restarts[0] += 1
            sim.probe("actor_resample_restarted")
            sim.ev("resample_restart", "")
            orig_log(task)

        actor._log_resampling_task_error = counting_log  # type: ignore[method-assign]
        run_us = nticks * period_us
        stalls_plan(run_us)
        src_tx: list[Any] = []

        async def data_sourcing() -> None:
            async for req in ds_rx:
                tx = reg.get_or_create(Sample[Quantity], req.get_channel_name()).new_sender()
                tx._verif_key = req.get_channel_name()  # type: ignore[attr-defined]
                src_tx.append(tx)

        t_ds = sim.spawn(data_sourcing())
        readers: list[Any] = []
        rs_tx = rs_ch.new_sender()

        def subscribe(cid: int, at_creation: bool) -> None:
            req = ComponentMetricRequest("ns", cid, ComponentMetricId.ACTIVE_POWER, None)
            name = f"c{cid}"
            rx = reg.get_or_create(Sample[Quantity], req.get_channel_name()).new_receiver(limit=5000)

            async def rd() -> None:
                async for s in rx:
                    rec.record(name, s.timestamp)

            readers.append(sim.spawn(rd()))
            if at_creation:
                rec.at_creation.add(name)
            else:
                sim.probe("series_added_while_running")
                sim.nontrivial = True
            sim.ev("add", name)
            sim.note(f"subscribe {name}")
            sim.spawn(rs_tx.send(req))

        n0 = ch.int_between("series_at_creation", 1, 3)
        if ch.chance("many_series", 0.06):
            n0 = ch.int_between("series_at_creation_many", 30, 70)      # "any number of series"
            sim.probe("more_than_32_series")
        for i in range(n0):
            subscribe(10 + i, True)
        actor.start()
        # later subscriptions: anywhere, or aimed at a tick instant (+-1us, +small) to race the gather
        nadd = ch.weighted("n_added", [1, 3, 3, 2])
        first_grid = creation_us
        if align_to is not None:
            first_grid = creation_us + (period_us - (_us(sim.epoch - align_to) + creation_us) % period_us) % period_us
        for j in range(nadd):
            if ch.chance("aim_at_tick", 0.6):
                k = ch.int_between("aim_tick_no", 1, nticks)
                when = first_grid + k * period_us + ch.choice("aim_off", [0, 0, -1, 1, 3, 20, 100])
            else:
                when = pre + ch.int_between("add_at", 0, run_us)
            sim.loop.at_abs(when, subscribe, 500 + j, False)

        async def feeder() -> None:
            n = 0
            while True:
                await asyncio.sleep(period_us / 1e6 * 0.7)
                for tx in list(src_tx):
                    n += 1
                    await tx.send(Sample(sim.wall(), Quantity(float(n))))

        # fault: the data source of one (later) subscription stops - the actor removes that series and goes on;
        # afterwards exact duplicates of the healthy subscriptions are sent (must have no effect)
        if nadd and ch.chance("source_stops", 0.3):
            victim_cid = 500 + ch.draw("victim", nadd)

            async def stop_source() -> None:
                key = ComponentMetricRequest("ns:Source", victim_cid, ComponentMetricId.ACTIVE_POWER, None).get_channel_name()
                if key in reg:
                    sim.probe("source_stopped")
                    sim.fault("source_stopped")
                    sim.note(f"source of c{victim_cid} stops")
                    sim.ev("source_stop", f"c{victim_cid}")
                    rec.removed[f"c{victim_cid}"] = sim.now_us
                    src_tx[:] = [t for t in src_tx if getattr(t, "_verif_key", None) != key]
                    await reg.close_and_remove(key)
                    await asyncio.sleep(2.5 * period_us / 1e6)
                    for i in range(n0):
                        sim.ev("duplicate_request", f"c{10 + i}")
                        await rs_tx.send(ComponentMetricRequest("ns", 10 + i, ComponentMetricId.ACTIVE_POWER, None))

            sim.loop.at_abs(pre + ch.int_between("source_stop_at", run_us // 2, run_us), lambda: sim.spawn(stop_source()))

        ft = sim.spawn(feeder())
        await _until(sim, pre + run_us)
        await _calm(sim, period_us, align_to, creation[0])
        calm_end = sim.now_us
        if not actor.is_running:
            sim.violation("liveness", {"variant": variant, "what": "actor stopped"}, "resampling actor not running")
        ft.cancel()
        t_ds.cancel()
        for r in readers:
            r.cancel()
        await actor.stop()
        _check(sim, rec, period_us, align_to, creation, variant, calm_end)

    async def main_mw() -> None:
        """MovingWindow with a resampler config: the window's internal Resampler must put one sample per tick
        into the ring buffer (observed by tapping the buffer's update method; the data is fed faster than the
        period).  Also: every non-None tick is in the ring buffer at its own timestamp."""
        from frequenz.channels import Broadcast
        from frequenz.quantities import Quantity
        from frequenz.sdk.timeseries import MovingWindow, Sample
        from frequenz.sdk.timeseries._resampling import ResamplerConfig

        sim.probe("moving_window_variant")
        if pre:
            await _until(sim, pre)
        creation_us = sim.now_us
        chan: Any = Broadcast(name="mw-in")
        cfg = ResamplerConfig(resampling_period=period, align_to=align_to, max_data_age_in_periods=3.0)
        # input as fast as 4 samples per period, or exactly one per period (resampling is then what puts the series
        # on the grid: the raw stamps are off it)
        in_div = ch.choice("mw_input_samples_per_period", [4, 4, 1])
        if in_div == 1:
            sim.probe("moving_window_input_period_equals_resampling_period")
        mw = MovingWindow(size=period * 100, resampled_data_recv=chan.new_receiver(limit=5000),
                          input_sampling_period=period / in_div, resampler_config=cfg,
                          align_to=align_to if align_to is not None else sim.epoch)
        creation = (creation_us, sim.now_us)
        # tap the sink the window registers with its internal Resampler (every tick, also None-valued ones which
        # the window does not write into its buffer); a window that has no Resampler of its own is observed at its
        # ring buffer instead (what is stored there is the resampled series the property talks about)
        if mw._resampler is not None:
            orig_add = mw._resampler.add_timeseries

            def add(name: str, source: Any, sink: Any) -> bool:
                async def tapped(sample: Any) -> None:
                    rec.record("mw", sample.timestamp)
                    await sink(sample)

                return orig_add(name, source, tapped)

            mw._resampler.add_timeseries = add  # type: ignore[method-assign]
        else:
            orig_update = mw._buffer.update

            def update(sample: Any) -> None:
                rec.record("mw", sample.timestamp)
                orig_update(sample)

            mw._buffer.update = update  # type: ignore[method-assign]
        rec.at_creation.add("mw")
        tx = chan.new_sender()
        run_us = nticks * period_us
        stalls_plan(run_us)
        n = 0
        # feed well before the first tick and then 4x per period
        mw.start()

        async def feeder() -> None:
            nonlocal n
            while True:
                n += 1
                await tx.send(Sample(sim.wall(), Quantity(float(n))))
                await asyncio.sleep(period_us / (in_div * 1e6))

        ft = sim.spawn(feeder())
        await _until(sim, pre + run_us)
        await _calm(sim, period_us, align_to, creation[0])
        calm_end = sim.now_us
        if not mw.is_running:
            sim.violation("liveness", {"variant": variant, "what": "moving window stopped"}, "MovingWindow not running")
        ft.cancel()
        await mw.stop()
        _check(sim, rec, period_us, align_to, creation, variant, calm_end)
        if not rec.ticks.get("mw"):
            sim.violation("liveness", {"variant": variant, "what": "no tick at all"}, "MovingWindow buffer never updated")

    sim.run(main_raw() if variant == "raw" else (main_actor() if variant == "actor" else main_mw()))


async def _calm(sim: Sim, period_us: int, align_to: datetime | None, creation_us: int) -> None:
    """Calm phase of >= 12 periods that ends a third of a period after a tick instant of the resampling timer.

    The end must not coincide with a tick: frequenz.channels' Timer.ready() swallows a CancelledError that arrives
    while it cleans up its helper tasks (dependency bug, out of scope), after which stop() never returns.  The instant
    is computed from the grid (not relative to "now": a stall that ends after the run would shift a relative sleep).
    """
    phase = creation_us if align_to is None else -_us(sim.epoch - align_to)
    t_min = sim.now_us + 12 * period_us
    await _until(sim, t_min + (phase + period_us // 3 + 7 - t_min) % period_us)


async def _until(sim: Sim, when_us: int) -> None:
    fut: asyncio.Future[None] = sim.loop.create_future()
    sim.loop.at_abs(when_us, lambda: fut.done() or fut.set_result(None))
    await fut


# --------------------------------------------------------------------------- in-process mutants
def _mut_window_end_from_now() -> Any:
    """`_window_end += period` replaced by 'next multiple of period after now' (skips ticks when late)."""
    from frequenz.sdk.timeseries import _resampling as rsm

    orig = rsm.Resampler.resample

    async def resample(self: Any, *, one_shot: bool = False) -> None:
        async for _ in self._timer:
            results = await asyncio.gather(*[r.resample(self._window_end) for r in self._resamplers.values()],
                                           return_exceptions=True)
            now = datetime.now(tz=timezone.utc)
            period = self._config.resampling_period
            self._window_end += period
            while self._window_end <= now - period:
                self._window_end += period
            excs = {s: results[i] for i, s in enumerate(self._resamplers) if isinstance(results[i], BaseException)}
            if excs:
                raise rsm.ResamplingError(excs)

    rsm.Resampler.resample = resample  # type: ignore[method-assign]
    return lambda: setattr(rsm.Resampler, "resample", orig)


def _mut_ignore_alignment() -> Any:
    """First window ends one period after creation, whatever align_to says."""
    from frequenz.sdk.timeseries import _resampling as rsm

    orig = rsm.Resampler._calculate_window_end

    def calc(self: Any) -> Any:
        return (datetime.now(timezone.utc) + self._config.resampling_period, timedelta(0))

    rsm.Resampler._calculate_window_end = calc  # type: ignore[method-assign]
    return lambda: setattr(rsm.Resampler, "_calculate_window_end", orig)


def _mut_first_window_three_periods() -> Any:
    """Unaligned creation: one extra period too many before the first window."""
    from frequenz.sdk.timeseries import _resampling as rsm

    orig = rsm.Resampler._calculate_window_end

    def calc(self: Any) -> Any:
        now = datetime.now(timezone.utc)
        period = self._config.resampling_period
        align_to = self._config.align_to
        if align_to is None:
            return (now + period, timedelta(0))
        elapsed = (now - align_to) % period
        if not elapsed:
            return (now + period, timedelta(0))
        return (now + period * 3 - elapsed, period * 2 - elapsed)

    rsm.Resampler._calculate_window_end = calc  # type: ignore[method-assign]
    return lambda: setattr(rsm.Resampler, "_calculate_window_end", orig)


def _mut_timer_skip_missed() -> Any:
    """Timer with SkipMissedAndResync instead of TriggerAllMissed (window_end drifts from the clock)."""
    from frequenz.channels.timer import SkipMissedAndResync
    from frequenz.sdk.timeseries import _resampling as rsm

    orig = rsm.TriggerAllMissed
    rsm.TriggerAllMissed = SkipMissedAndResync  # type: ignore[misc,assignment]
    return lambda: setattr(rsm, "TriggerAllMissed", orig)


MUTANTS = {"window_end_from_now": _mut_window_end_from_now,
           "ignore_alignment": _mut_ignore_alignment,
           "first_window_three_periods": _mut_first_window_three_periods,
           "timer_skip_missed": _mut_timer_skip_missed}
