"""C03 - power manager target stays inside usable system bounds, history-free.

Harness A (object level): a generated history of propose / replace / advance time / drop_old /
set_bounds / calculate operations on one real Matryoshka (clock seam: creation_time and loop_time are
parameters).  Harness B (actor level): the real PowerManagingActor on the simulated loop, clients
sending proposals at drawn instants, bounds published at drawn instants, virtual time running past
the 60 s maximum age so that the real 1 s Timer expires proposals.
Oracle: (a) envelope, (b) a *fresh* Matryoshka fed only the live proposals (canonical and shuffled
order) yields the same target, (c) expired proposals are not in the live set.
"""

from __future__ import annotations

import asyncio
from typing import Any

from props import powermgr as pm
from sim.env import Sim

ID = "C03"
REAL = ["Matryoshka (calculate_target_power, _calc_target_power, drop_old_proposals, get_target_power)", "_bounds helpers",
        "Proposal eq/hash/ordering", "PowerManagingActor + Timer(1s) drop loop + select loop (actor variant)", "ChannelRegistry"]
STUB = ["bounds source (FakeBoundsPool)", "power distributor (harness reads Requests)", "client actors"]
RULE = ("one run = a history of 8-40 operations (proposal by a new/existing actor incl. identical re-sends and bounds with lower > upper, time advance up to "
        "and past the 60 s max age, drop_old, new system bounds incl. exclusion zones bigger than the inclusion range and "
        "None) on one Matryoshka, or the same through the real actor; values biased onto all interval end points +-1 W; "
        "non-trivial = at least one replacement or expiry or bounds change happened; distinct = abstract digest of the "
        "operation sequence (kind, actor)"
        " Values also carry binary fractions of a watt; the actor variant runs the manager for battery, EV-charger"
        " or PV pools and in 40% of runs proposes through a BatteryPool front-end."
        " The object level tracks the last target calculate_target_power() handed out (None = unchanged must leave"
        " the right value in force) and issues get_status() between a change and the recalculation; the actor level"
        " also re-publishes unchanged bounds.")
QUICK_RUNS = 8000
THOROUGH_RUNS = 500_000
EXPECT_PROBES = ["replacement", "expiry", "bounds_change", "same_priority_actors", "exclusion_bigger_than_inclusion",
                 "actor_variant", "expiry_via_timer", "two_component_groups", "identical_resend", "non_default_max_age",
                 "bounds_update_checked_at_actor_level", "inverted_bounds",
                 "status_query_between_change_and_recalculation"]

IDS = frozenset({8, 18})
IDS2 = frozenset({28, 38})


def _mk_actors(ch: Any, n: int) -> list[dict[str, Any]]:
    actors = []
    for i in range(n):
        prio = ch.choice("prio", [1, 2, 3, 5, 8, 13])
        actors.append({"name": f"a{i}", "prio": prio})
    return actors


def scenario_object(sim: Sim) -> None:
    from datetime import timedelta

    from frequenz.sdk.microgrid._power_managing._matryoshka import Matryoshka

    ch = sim.ch
    actors = _mk_actors(ch, ch.int_between("nactors", 1, 6))
    if len({a["prio"] for a in actors}) < len(actors):
        sim.probe("same_priority_actors")
    # maximum proposal age: the actor's 60 s, or a non-default one (sub-second, fractional, more than a day)
    max_age = ch.choice("max_age_s", [60.0, 60.0, 0.5, 90.5, 86400.0 + 5.0])
    if max_age != 60.0:
        sim.probe("non_default_max_age")
    m = Matryoshka(max_proposal_age=timedelta(seconds=max_age))
    ngroups = 1 + ch.weighted("ngroups", [2, 1])
    groups = [IDS, IDS2][:ngroups]
    if ngroups > 1:
        sim.probe("two_component_groups")
    sbs = [pm.gen_sysbounds(ch, allow_none=False) for _ in groups]
    now = 100.0
    lives: list[dict[tuple[int, str], dict[str, Any]]] = [{} for _ in groups]
    ever = [False] * ngroups
    handed: dict[int, float | None] = {}      # group -> last target calculate_target_power() actually returned (not None)
    nops = ch.int_between("nops", 8, sim.scale(40, 90))
    for step in range(nops):
        g = ch.draw("group", ngroups)
        ids, live, sb = groups[g], lives[g], sbs[g]
        op = ch.weighted("op", [6, 2, 1, 2, 2])
        if op == 0:
            a = actors[ch.draw("actor", len(actors))]
            p = pm.gen_proposal(ch, a, sb, list(live.values()), now, inverted=True)
            if p["lower"] is not None and p["upper"] is not None and p["lower"] > p["upper"]:
                sim.probe("inverted_bounds")
            if ch.chance("resend_identical", 0.1) and (a["prio"], a["name"]) in live:
                p = dict(live[(a["prio"], a["name"])], t=now)
                sim.probe("identical_resend")
            if (a["prio"], a["name"]) in live:
                sim.probe("replacement")
                sim.nontrivial = True
            live[(a["prio"], a["name"])] = p
            ever[g] = True
            sim.ev("propose", a["name"], g, p["pref"], p["lower"], p["upper"])
            sim.note(f"group {g}: propose {pm.pstr(p)} at t={now}")
            ret = m.calculate_target_power(ids, pm.mk_proposal(p, ids), pm.mk_sysbounds(sb, sim.wall()),
                                           must_return_power=bool(ch.draw("must", 2)))
            if ret is not None:
                handed[g] = pm.watts(ret)
        elif op == 1:
            dt = ch.choice("dt", [0.5, 1.0, 10.0, 29.0, 30.0, 59.0, 60.0, 60.5, 61.0, 125.0]) * (max_age / 60.0)
            now += dt
            sim.ev("advance", "", dt)
            sim.note(f"advance {dt}s -> {now}")
        elif op == 2:
            m.drop_old_proposals(now)
            ngone = 0
            for lv in lives:
                for k in [k for k, p in lv.items() if now - p["t"] > max_age]:
                    del lv[k]
                    ngone += 1
                    sim.probe("expiry")
                    sim.nontrivial = True
            sim.ev("drop_old", "", ngone)
            sim.note(f"drop_old_proposals({now}) -> {ngone} expired")
            if ever[g] and ch.chance("status_query_before_recalculation", 0.3):
                # somebody asks for a report between the state change and the recalculation (must be a pure read)
                sim.probe("status_query_between_change_and_recalculation")
                m.get_status(ids, ch.choice("status_prio", [0, 2, 5, 20]), pm.mk_sysbounds(sb, sim.wall()))
        elif op == 3:
            sb = sbs[g] = pm.gen_sysbounds(ch)
            if sb["lo"] is not None and (sb["xlo"] < sb["lo"] or sb["xhi"] > sb["hi"]):
                sim.probe("exclusion_bigger_than_inclusion")
            sim.probe("bounds_change")
            sim.nontrivial = True
            sim.ev("bounds", g, repr(sorted(sb.items())))
            sim.note(f"group {g}: bounds incl [{sb['lo']},{sb['hi']}] excl ({sb['xlo']},{sb['xhi']})")
            if ever[g] and ch.chance("status_query_before_recalculation", 0.3):
                sim.probe("status_query_between_change_and_recalculation")
                m.get_status(ids, ch.choice("status_prio", [0, 2, 5, 20]), pm.mk_sysbounds(sb, sim.wall()))
        # ---- observe + oracle after every operation, for every group (expiry acts on all of them)
        for gg in range(ngroups):
            if ever[gg]:
                _check_object(sim, m, groups[gg], lives[gg], sbs[gg], step, gg, max_age, handed)


def _check_object(sim: Sim, m: Any, ids: frozenset[int], live: dict[tuple[int, str], dict[str, Any]],
                  sb: dict[str, Any], step: int, g: int, max_age: float, handed: dict[int, float | None]) -> None:
    ch = sim.ch
    sysb = pm.mk_sysbounds(sb, sim.wall())
    # first the way the actor's bounds tracker asks ("tell me only if it changed"), then read the current target;
    # afterwards the explicit must_return_power=True form - all three must tell the same story
    changed = pm.watts(m.calculate_target_power(ids, None, sysb))
    current = pm.watts(m.get_target_power(ids))
    if changed is not None:
        handed[g] = changed
    got = pm.watts(m.calculate_target_power(ids, None, sysb, must_return_power=True))
    if got is not None and g in handed and handed[g] != got:
        # "None" means "unchanged": then the last value that was actually handed out must be the target
        sim.violation("history_free", {"order": "unchanged_answer_but_the_last_value_handed_out_differs"},
                      f"step {step} group {g}: recalculating without a new proposal answered None (= unchanged), the last "
                      f"target handed out was {handed[g]} W, but the target for the live set and bounds {sb} is {got} W")
    handed[g] = got
    if got is not None and (current != got or (changed is not None and changed != got)):
        sim.violation("history_free", {"order": "recalculation_without_proposal"},
                      f"step {step} group {g}: recalculating without a new proposal answered {changed} (None = unchanged) "
                      f"and left the current target at {current} W, but the target for the live set and bounds {sb} is "
                      f"{got} W")
    if got is None:
        sim.violation("envelope", {"what": "no target although proposals exist"}, f"step {step} group {g}")
    assert got is not None
    sim.ev("target", g, got)
    bad = pm.in_envelope(got, sb)
    if bad:
        sim.violation("envelope", {"what": bad.split(" W ")[1][:20] if " W " in bad else bad[:20]},
                      f"step {step} group {g}: {bad}; live={[pm.pstr(p) for p in live.values()]}")
    lv = sorted(live.values(), key=lambda p: (p["prio"], p["actor"]))
    want = pm.fresh_target(lv, sb, ids, sim.wall(), max_age=max_age) if lv else 0.0
    if want != got:
        sim.violation("history_free", {"order": "canonical"},
                      f"step {step} group {g}: target {got} W, but a fresh instance fed only the live proposals "
                      f"{[pm.pstr(p) for p in lv]} with bounds {sb} yields {want} W")
    if len(lv) > 1:
        order = ch.shuffle("fresh_order", list(range(len(lv))))
        want2 = pm.fresh_target(lv, sb, ids, sim.wall(), order, max_age=max_age)
        if want2 != got:
            sim.violation("history_free", {"order": "shuffled"},
                          f"step {step} group {g}: target {got} W, fresh instance fed in order {order} yields {want2} W")
    if m.get_target_power(ids) is None or pm.watts(m.get_target_power(ids)) != got:
        sim.violation("history_free", {"order": "get_target_power"},
                      f"get_target_power {m.get_target_power(ids)} != last calculated {got}")


def scenario_actor(sim: Sim) -> None:
    ch = sim.ch
    sim.probe("actor_variant")
    actors = _mk_actors(ch, ch.int_between("nactors", 1, 5))
    h = pm.ActorHarness(sim, [IDS])
    cost = ch.weighted("cost_mode", [3, 1])
    sim.set_cost_mode(cost)
    st: dict[str, Any] = {"sb_idle": None, "sb_since": [], "sent": {}, "last_req": None, "check_after": None}

    async def main() -> None:
        await h.start()
        # The manager starts tracking a group's bounds at the first subscription/proposal for it and
        # documents that proposals arriving while it has no bounds at all are ignored; that state is
        # outside the property's quantifier ("for every system bounds ..."), so subscribe first and
        # publish the first bounds before any proposal.
        await h.subscribe_reports(0, actors[0])
        await asyncio.sleep(0.01)
        sb = pm.gen_sysbounds(ch, allow_none=False)
        h.publish_bounds(0, sb)
        st["sb_since"].append(sb)
        nops = ch.int_between("nops", 6, sim.scale(30, 70))

        def on_idle() -> None:
            if st["sb_since"]:
                st["sb_idle"] = st["sb_since"][-1]
                st["sb_since"] = []
            if st["check_after"] is not None and h.requests and h.requests[-1]["ev"] > st["check_after"]["ev"]:
                _check_request(sim, h, st)
                st["check_after"] = None

        def on_request(rec: dict[str, Any]) -> None:
            cands = ([st["sb_idle"]] if st["sb_idle"] else []) + st["sb_since"]
            errs = [pm.in_envelope(rec["power"], c) for c in cands]
            if cands and all(errs):
                sim.violation("envelope", {"what": "request outside every recent system bounds", "level": "actor"},
                              f"request {rec['power']} W; {errs[-1]}")

        h.on_request = on_request  # type: ignore[method-assign]
        await asyncio.sleep(0.01)
        sim.loop.idle_hooks.append(on_idle)
        for _ in range(nops):
            op = ch.weighted("op", [6, 3, 2, 2])
            if op == 3:
                # the pool streams its bounds periodically: a new sample with the same values (only the timestamp
                # differs) is a bounds update like any other
                sbr = st["sb_since"][-1] if st["sb_since"] else st["sb_idle"]
                sim.probe("bounds_republished_unchanged")
                st["sb_since"].append(sbr)
                h.publish_bounds(0, sbr)
                await asyncio.sleep(0.001)
                if st["sent"] and h.requests and st["check_after"] is None:
                    _check_request(sim, h, st)
            elif op == 0:
                a = actors[ch.draw("actor", len(actors))]
                live_now = [p for p in st["sent"].values()]
                p = pm.gen_proposal(ch, a, st["sb_since"][-1] if st["sb_since"] else st["sb_idle"], live_now, sim.loop.time(),
                                    inverted=True)
                if (a["prio"], a["name"]) in st["sent"]:
                    sim.probe("replacement")
                    sim.nontrivial = True
                st["sent"][(a["prio"], a["name"])] = p
                st["check_after"] = {"ev": sim.evno}
                h.propose(0, p)
                # let the actor settle before anything else changes, so that the comparison is exact
                await asyncio.sleep(0.001)
            elif op == 1:
                dt = ch.choice("dt_us", [1_000, 300_000, 1_000_000, 10_000_000, 30_000_000, 59_000_000, 60_000_000,
                                         61_000_000, 62_500_000])
                await asyncio.sleep(dt / 1e6)
            else:
                sb2 = pm.gen_sysbounds(ch)
                sim.probe("bounds_change")
                sim.nontrivial = True
                st["sb_since"].append(sb2)
                h.publish_bounds(0, sb2)
                await asyncio.sleep(0.001)
                if st["sent"] and h.requests and st["check_after"] is None:
                    # (on_idle has run: sb_idle is the new bounds).  Every change of the target is sent, so the last
                    # request is the current target; it must be what the live set yields under the new bounds.
                    sim.probe("bounds_update_checked_at_actor_level")
                    _check_request(sim, h, st)
            if ch.chance("stall", 0.03):
                sim.stall(ch.choice("stall_us", [500_000, 1_500_000, 3_000_000]))
                st["stalled"] = True
        await asyncio.sleep(0.1)
        sim.loop.idle_hooks.remove(on_idle)
        await h.stop()

    sim.run(main())


def _check_request(sim: Sim, h: pm.ActorHarness, st: dict[str, Any]) -> None:
    """At the idle point after a proposal: the last request must equal what a fresh Matryoshka yields
    for the live set.  Proposals whose age is within one drop-timer period (+ injected stalls) of the
    maximum age may or may not have been dropped yet: both live sets are accepted."""
    now = sim.loop.time()
    sb = st["sb_idle"]
    if sb is None:
        return
    got = h.requests[-1]["power"]
    slack = 1.0 + 3.5  # 1 s timer granularity + the largest injected stall
    sure = [p for p in st["sent"].values() if now - p["t"] <= pm.MAX_AGE_S]
    maybe = [p for p in st["sent"].values() if pm.MAX_AGE_S < now - p["t"] <= pm.MAX_AGE_S + slack]
    if len(sure) < len(st["sent"]):
        sim.probe("expiry_via_timer")
        sim.nontrivial = True
    for k in [k for k, p in st["sent"].items() if now - p["t"] > pm.MAX_AGE_S + slack]:
        del st["sent"][k]
    accepted = []
    import itertools

    for r in range(len(maybe) + 1):
        for extra in itertools.combinations(maybe, r):
            lv = sorted(sure + list(extra), key=lambda p: (p["prio"], p["actor"]))
            accepted.append(pm.fresh_target(lv, sb, IDS, sim.wall()) if lv else 0.0)
        if len(accepted) > 16:
            break
    if got not in accepted:
        sim.violation("history_free", {"order": "actor"},
                      f"request {got} W after the last proposal; a fresh instance fed the live proposals "
                      f"{[pm.pstr(p) for p in sure]} (+maybe {[pm.pstr(p) for p in maybe]}) with bounds {sb} yields {accepted}")


def scenario(sim: Sim) -> None:
    if sim.ch.weighted("variant", [3, 1]) == 0:
        sim.config["variant"] = "object"
        scenario_object(sim)
    else:
        sim.config["variant"] = "actor"
        scenario_actor(sim)


# --------------------------------------------------------------------------- in-process mutants
def _mut_add_without_remove() -> Any:
    """bucket.add() without removing the equal (older) proposal first: the old one stays."""
    from frequenz.sdk.microgrid._power_managing import _matryoshka as mt

    orig = mt.Matryoshka.calculate_target_power

    def calc(self: Any, component_ids: Any, proposal: Any, system_bounds: Any, must_return_power: bool = False) -> Any:
        if proposal is not None and self._validate_component_ids(component_ids, proposal, system_bounds):
            bucket = self._component_buckets.setdefault(component_ids, set())
            bucket.add(proposal)  # set.add keeps the existing equal element
            proposal = None
        return orig(self, component_ids, proposal, system_bounds, must_return_power)

    mt.Matryoshka.calculate_target_power = calc  # type: ignore[method-assign]
    return lambda: setattr(mt.Matryoshka, "calculate_target_power", orig)


def _mut_never_expire() -> Any:
    from frequenz.sdk.microgrid._power_managing import _matryoshka as mt

    orig = mt.Matryoshka.drop_old_proposals
    mt.Matryoshka.drop_old_proposals = lambda self, loop_time: None  # type: ignore[method-assign]
    return lambda: setattr(mt.Matryoshka, "drop_old_proposals", orig)


def _mut_no_exclusion_clamp() -> Any:
    """clamp_to_bounds ignores the exclusion zone when it is contained in the bounds."""
    from frequenz.sdk.microgrid._power_managing import _bounds as b

    orig = b.clamp_to_bounds

    def clamp(value: Any, lower_bound: Any, upper_bound: Any, exclusion_bounds: Any) -> Any:
        r = orig(value, lower_bound, upper_bound, exclusion_bounds)
        if r[0] is not None and r[1] is not None and r[0] != r[1]:
            return value, value
        return r

    b.clamp_to_bounds = clamp  # type: ignore[assignment]
    return lambda: setattr(b, "clamp_to_bounds", orig)


def _mut_expire_off_by_factor() -> Any:
    """Proposals expire only after twice the maximum age."""
    from frequenz.sdk.microgrid._power_managing import _matryoshka as mt

    orig = mt.Matryoshka.drop_old_proposals

    def drop(self: Any, loop_time: float) -> None:
        orig(self, loop_time - self._max_proposal_age_sec)

    mt.Matryoshka.drop_old_proposals = drop  # type: ignore[method-assign]
    return lambda: setattr(mt.Matryoshka, "drop_old_proposals", orig)


MUTANTS = {"add_without_remove": _mut_add_without_remove, "never_expire": _mut_never_expire,
           "no_exclusion_clamp": _mut_no_exclusion_clamp, "expire_after_twice_max_age": _mut_expire_off_by_factor}
