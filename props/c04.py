"""C04 - lower-priority preferences are honoured only inside higher-priority bounds.

Same simulated histories as C03, restricted to conflict-free proposal sets with distinct priorities.
Oracle clauses:
  (a) target == reference model of the priority sweep (written from the statement, props/powermgr.py);
  (b) report contract: with lower-priority preferences removed, the manager adopts x unchanged
      <=> report.adjust_to_bounds(x) == (x, x) <=> x is in the reference admissible set of that actor
      (or x == 0 inside the zone with 0 inside the reported bounds);
  (c) a proposal with neither power nor bounds changes neither the target nor any report.
Actor-level variant: the same relation (b) between the _Report actually received on the report
channel and the Request the real PowerManagingActor emits for the next proposal of that actor.
"""

from __future__ import annotations

import asyncio
from datetime import timedelta
from typing import Any

from props import powermgr as pm
from sim.env import Sim

ID = "C04"
REAL = ["Matryoshka._calc_target_power / get_status", "_Report.adjust_to_bounds", "_bounds helpers",
        "PowerManagingActor report + request path (actor variant)"]
STUB = ["bounds source", "power distributor", "client actors"]
RULE = ("one run = a history of proposals (distinct priorities, 1-6 actors, replacements, expiry) and bounds changes; at "
        "every step whose live set is conflict-free (running intersection of system bounds and higher-priority bounds minus "
        "the exclusion zone never empty) the three clauses are evaluated (the target both as the bounds tracker sees it - recalculation without proposal, then get_target_power - and with must_return_power), probing x on every interval end point +-1 W; "
        "non-trivial = conflict-free step with >= 2 live proposals of which a higher-priority one sets bounds; distinct = "
        "abstract digest of the operation sequence"
        " Values also carry binary fractions of a watt; two actors may share a priority (bounds only); the actor"
        " variant runs for battery / EV-charger / PV pools, may propose through"
        " BatteryPool.propose_power/charge/discharge and lets the probe actor withdraw."
        " Object-level time is the simulated loop clock (expired-but-not-yet-dropped proposals exist); bounds"
        " outages (None, then back); last-handed-out target tracked.")
QUICK_RUNS = 6000
THOROUGH_RUNS = 400_000
EXPECT_PROBES = ["conflict_free_step", "conflicting_step_skipped", "higher_priority_bounds_bind", "pref_inside_exclusion_zone",
                 "tie_between_exclusion_edges", "null_proposal_checked", "report_contract_checked", "actor_variant",
                 "two_actors_share_a_priority", "system_bounds_outage"]

IDS = frozenset({8, 18})


def _status(m: Any, prio: int, sb: dict[str, Any], sim: Sim) -> Any:
    return m.get_status(IDS, prio, pm.mk_sysbounds(sb, sim.wall()))


def _rep_key(r: Any) -> tuple[Any, ...]:
    b = r.bounds
    return (pm.watts(r.target_power), None if b is None else (pm.watts(b.lower), pm.watts(b.upper)))


def _fresh(live: list[dict[str, Any]], sb: dict[str, Any], sim: Sim) -> Any:
    from frequenz.sdk.microgrid._power_managing._matryoshka import Matryoshka

    m = Matryoshka(max_proposal_age=timedelta(seconds=pm.MAX_AGE_S))
    sysb = pm.mk_sysbounds(sb, sim.wall())
    for p in live:
        m.calculate_target_power(IDS, pm.mk_proposal(p, IDS), sysb)
    return m


def check_live_set(sim: Sim, m: Any, live: list[dict[str, Any]], sb: dict[str, Any], step: Any,
                   handed: dict[str, Any] | None = None) -> None:
    """Evaluate the three clauses on the real instance `m` whose live set is `live`."""
    ch = sim.ch
    if sb["lo"] is None or not live:
        return
    ref = pm.reference(live, sb)
    if not ref["conflict_free"]:
        sim.probe("conflicting_step_skipped")
        return
    sim.probe("conflict_free_step")
    by_prio = sorted(live, key=lambda q: -q["prio"])
    if len(live) >= 2 and any(p["lower"] is not None or p["upper"] is not None for p in by_prio[:-1]):
        sim.probe("higher_priority_bounds_bind")
        sim.nontrivial = True
    sysb = pm.mk_sysbounds(sb, sim.wall())
    # first the way the actor's bounds tracker tells the algorithm about (possibly new) system bounds, and what the
    # actor would then use as the current target; only afterwards the explicit must_return_power=True form
    changed = pm.watts(m.calculate_target_power(IDS, None, sysb))
    if handed is not None:
        if changed is not None:
            handed["v"] = changed
        if "v" in handed and not any(abs(handed["v"] - a_) < 1e-9 for a_ in ref["accept"]):
            # an answer of None means "unchanged": the value handed out last must then be the right one
            sim.violation("matches_reference", {"what": "recalculation answered 'unchanged' but the last target handed out is wrong"},
                          f"step {step}: last target handed out {handed['v']} W, calculate_target_power(proposal=None) "
                          f"answered {changed}, reference accepts {sorted(ref['accept'])}; bounds {sb}; live "
                          f"{[pm.pstr(p) for p in by_prio]}")
    cur = pm.watts(m.get_target_power(IDS))
    if cur not in ref["accept"]:
        sim.violation("matches_reference", {"what": "current target after a bounds-only recalculation differs from the reference"},
                      f"step {step}: after calculate_target_power(proposal=None) get_target_power() is {cur} W, reference "
                      f"accepts {sorted(ref['accept'])}; bounds {sb}; live (highest priority first) "
                      f"{[pm.pstr(p) for p in by_prio]}")
    got = pm.watts(m.calculate_target_power(IDS, None, sysb, must_return_power=True))
    for p in live:
        if p["pref"] is not None and p["pref"] != 0 and sb["xlo"] < p["pref"] < sb["xhi"]:
            sim.probe("pref_inside_exclusion_zone")
    if len(ref["accept"]) > 1 and 0.0 not in ref["accept"]:
        sim.probe("tie_between_exclusion_edges")
    # ---- (a)
    if got not in ref["accept"]:
        sim.violation("matches_reference", {"what": "target differs from the priority-sweep reference"},
                      f"step {step}: target {got} W, reference accepts {sorted(ref['accept'])}; bounds {sb}; live "
                      f"(highest priority first) {[pm.pstr(p) for p in by_prio]}")
    # ---- (b) report contract for one drawn actor (not for one that shares its priority with another actor: whether
    # the peer counts as "higher" for it is a tie-break the statement leaves open; for everybody below, both count)
    nprio: dict[int, int] = {}
    for p in live:
        nprio[p["prio"]] = nprio.get(p["prio"], 0) + 1
    uniq = [p for p in by_prio if nprio[p["prio"]] == 1]
    if len(uniq) < len(by_prio):
        sim.probe("two_actors_share_a_priority")
    if not uniq:
        return
    x_actor = uniq[ch.draw("contract_actor", len(uniq))]
    prio = x_actor["prio"]
    rep = _status(m, prio, sb, sim)
    a_ref = ref["A"][prio]
    cands = pm.candidate_values(sb, live)
    if rep.bounds is not None:
        lo, hi = pm.watts(rep.bounds.lower), pm.watts(rep.bounds.upper)
        cands = sorted(set(cands) | {lo, hi, lo - 1, hi + 1, (lo + hi) / 2})
    others = [dict(p, pref=None) if p["prio"] < prio else p for p in live if p is not x_actor]
    sim.probe("report_contract_checked")
    for x in cands:
        adj = rep.adjust_to_bounds(pm.W(x))
        says_ok = adj[0] is not None and adj[1] is not None and pm.watts(adj[0]) == x and pm.watts(adj[1]) == x
        fm = _fresh(others + [dict(x_actor, pref=x)], sb, sim)
        tgt = pm.watts(fm.calculate_target_power(IDS, None, sysb, must_return_power=True))
        adopted = tgt == x
        in_ref = any(lo_ <= x <= hi_ for lo_, hi_ in a_ref) or (
            x == 0.0 and min(l_ for l_, _ in a_ref) <= 0.0 <= max(h_ for _, h_ in a_ref))
        if adopted != says_ok:
            sim.violation("report_contract", {"what": "adjust_to_bounds disagrees with what the manager does"},
                          f"step {step}: actor {x_actor['actor']} (prio {prio}) reported bounds "
                          f"{_rep_key(rep)[1]}; proposing {x} W: adjust_to_bounds -> {tuple(pm.watts(v) for v in adj)}, "
                          f"manager target -> {tgt} W (lower-priority preferences removed); bounds {sb}; live "
                          f"{[pm.pstr(p) for p in by_prio]}")
        if adopted != in_ref:
            sim.violation("report_contract", {"what": "adoption range differs from the reference admissible set"},
                          f"step {step}: actor {x_actor['actor']} (prio {prio}) proposing {x} W: adopted={adopted} "
                          f"(target {tgt}), reference admissible set {a_ref}; bounds {sb}; live {[pm.pstr(p) for p in by_prio]}")
    # ---- (c) null proposal
    sim.probe("null_proposal_checked")
    before = {p["prio"]: _rep_key(_status(m, p["prio"], sb, sim)) for p in live}
    np_prio = ch.choice("null_prio", [0, 4, 7, 21] + [p["prio"] for p in live])
    existing = next((p for p in live if p["prio"] == np_prio), None)
    null = {"actor": existing["actor"] if existing else "nullactor", "prio": np_prio, "op": False, "pref": None,
            "lower": None, "upper": None, "t": live[0]["t"]}
    base = [p for p in live if p is not existing]
    fm0 = _fresh(base, sb, sim)
    fm1 = _fresh(base + [null], sb, sim)
    t0 = pm.watts(fm0.calculate_target_power(IDS, None, sysb, must_return_power=True)) if base else 0.0
    t1 = pm.watts(fm1.calculate_target_power(IDS, None, sysb, must_return_power=True))
    if t0 != t1:
        sim.violation("null_proposal", {"what": "target changes"},
                      f"step {step}: adding {pm.pstr(null)} changes the target {t0} -> {t1}; bounds {sb}; "
                      f"others {[pm.pstr(p) for p in base]}")
    for p in base:
        rep0, rep1 = fm0.get_status(IDS, p["prio"], sysb), fm1.get_status(IDS, p["prio"], sysb)
        # reports are compared by meaning (target + what adjust_to_bounds answers on every end point), not by
        # raw fields: the inclusion bounds may legitimately be reported with or without the part that the
        # separately reported exclusion zone makes unusable anyway
        sem0 = (pm.watts(rep0.target_power), [sorted({pm.watts(v) for v in rep0.adjust_to_bounds(pm.W(x)) if v is not None}) for x in cands])
        sem1 = (pm.watts(rep1.target_power), [sorted({pm.watts(v) for v in rep1.adjust_to_bounds(pm.W(x)) if v is not None}) for x in cands])
        if sem0 != sem1:
            diff = [(x, a, b) for x, a, b in zip(cands, sem0[1], sem1[1]) if a != b][:4]
            sim.violation("null_proposal", {"what": "report changes"},
                          f"step {step}: adding {pm.pstr(null)} changes the report of prio {p['prio']}: "
                          f"{_rep_key(rep0)} -> {_rep_key(rep1)}; adjust_to_bounds differs at {diff}")
    del before


def scenario_object(sim: Sim) -> None:
    from frequenz.sdk.microgrid._power_managing._matryoshka import Matryoshka

    ch = sim.ch
    n = ch.int_between("nactors", 1, 6)
    prios = ch.shuffle("prios", [1, 2, 3, 5, 8, 13])[:n]
    shared: set[str] = set()
    if n >= 3 and ch.chance("shared_priority", 0.25):
        # two different actors with the same priority; they only set bounds (whose preference would win is a tie-break
        # the statement leaves open), every lower-priority actor is bound by both
        prios[1] = prios[0]
        shared = {"a0", "a1"}
    actors = [{"name": f"a{i}", "prio": prios[i]} for i in range(n)]
    m = Matryoshka(max_proposal_age=timedelta(seconds=pm.MAX_AGE_S))
    sb = pm.gen_sysbounds(ch, allow_none=False)
    # the algorithm's notion of "now" is the event loop's clock (proposals carry loop time): keep both in step
    sim.loop.advance(100_000_000)
    now = sim.loop.time()
    handed: dict[str, Any] = {}
    live: dict[str, dict[str, Any]] = {}
    for step in range(ch.int_between("nops", 6, sim.scale(30, 70))):
        op = ch.weighted("op", [7, 1, 1, 2])
        if op == 0:
            a = actors[ch.draw("actor", n)]
            # bias towards compatible bounds: draw bounds inside the currently admissible hull half of the time
            p = pm.gen_proposal(ch, a, sb, list(live.values()), now)
            if ch.chance("make_compatible", 0.5) and (p["lower"] is not None or p["upper"] is not None) and sb["lo"] is not None:
                p["lower"] = None if p["lower"] is None else max(p["lower"], sb["lo"]) if p["lower"] <= sb["hi"] else sb["lo"]
                p["upper"] = None if p["upper"] is None else min(p["upper"], sb["hi"]) if p["upper"] >= sb["lo"] else sb["hi"]
                if p["lower"] is not None and p["upper"] is not None and p["lower"] > p["upper"]:
                    p["lower"], p["upper"] = p["upper"], p["lower"]
            if a["name"] in shared:
                p["pref"] = None
            live[a["name"]] = p
            sim.ev("propose", a["name"], p["pref"], p["lower"], p["upper"])
            sim.note(f"propose {pm.pstr(p)}")
            ret = m.calculate_target_power(IDS, pm.mk_proposal(p, IDS), pm.mk_sysbounds(sb, sim.wall()))
            if ret is not None:
                handed["v"] = pm.watts(ret)
        elif op == 1:
            sim.loop.advance(int(ch.choice("dt", [1.0, 30.0, 59.0, 61.0]) * 1e6))
            now = sim.loop.time()
            sim.ev("advance", "", now)
        elif op == 2:
            m.drop_old_proposals(now)
            for k in [k for k, p in live.items() if now - p["t"] > pm.MAX_AGE_S]:
                del live[k]
            sim.ev("drop_old", "")
        else:
            if live and ch.chance("bounds_outage", 0.2):
                # the pool has no bounds for a moment (no working components), then they come back
                sim.probe("system_bounds_outage")
                ret = m.calculate_target_power(IDS, None, pm.mk_sysbounds({"lo": None, "hi": None, "xlo": 0.0, "xhi": 0.0}, sim.wall()))
                if ret is not None:
                    handed["v"] = pm.watts(ret)
            sb = pm.gen_sysbounds(ch, allow_none=False)
            sim.ev("bounds", "", repr(sorted(sb.items())))
            sim.note(f"bounds {sb}")
        check_live_set(sim, m, list(live.values()), sb, step, handed)


def scenario_actor(sim: Sim) -> None:
    """Report actually received on the channel vs. the Request the actor emits for the next proposal."""
    ch = sim.ch
    sim.probe("actor_variant")
    n = ch.int_between("nactors", 1, 4)
    prios = ch.shuffle("prios", [1, 2, 3, 5, 8])[:n]
    actors = [{"name": f"a{i}", "prio": prios[i]} for i in range(n)]
    h = pm.ActorHarness(sim, [IDS])
    sim.set_cost_mode(ch.weighted("cost_mode", [3, 1]))

    async def main() -> None:
        await h.start()
        for a in actors:
            await h.subscribe_reports(0, a)
        await asyncio.sleep(0.01)
        sb = pm.gen_sysbounds(ch, allow_none=False)
        h.publish_bounds(0, sb)
        await asyncio.sleep(0.01)
        live: dict[int, dict[str, Any]] = {}
        # higher-priority actors set bounds (and maybe preferences); the lowest one is the probe actor
        order = sorted(actors, key=lambda a: -a["prio"])
        probe = order[-1]
        for a in order[:-1]:
            if ch.chance("skip_actor", 0.2):
                continue
            p = pm.gen_proposal(ch, a, sb, list(live.values()), sim.loop.time())
            live[a["prio"]] = p
            h.propose(0, p)
            await asyncio.sleep(ch.choice("gap_s", [0.001, 0.2, 2.0]))
        for rnd in range(ch.int_between("rounds", 1, 4)):
            if ch.chance("new_bounds", 0.3):
                sb = pm.gen_sysbounds(ch, allow_none=False)
                h.publish_bounds(0, sb)
                await asyncio.sleep(0.01)
            ref = pm.reference(list(live.values()) + [dict(probe, actor=probe["name"], op=False, pref=None, lower=None,
                                                         upper=None, t=0.0)], sb)
            if not ref["conflict_free"]:
                sim.probe("conflicting_step_skipped")
                continue
            sim.probe("conflict_free_step")
            reps = h.reports[(0, probe["name"])]
            if not reps or reps[-1].bounds is None:
                continue
            rep = reps[-1]
            cands = pm.candidate_values(sb, list(live.values()))
            x = cands[ch.draw("x", len(cands))]
            adj = rep.adjust_to_bounds(pm.W(x))
            says_ok = adj[0] is not None and adj[1] is not None and pm.watts(adj[0]) == x and pm.watts(adj[1]) == x
            nreq = len(h.requests)
            p = {"actor": probe["name"], "prio": probe["prio"], "op": False, "pref": x, "lower": None, "upper": None,
                 "t": sim.loop.time()}
            h.propose(0, p)
            await asyncio.sleep(0.01)
            sim.probe("report_contract_checked")
            if len(h.requests) <= nreq:
                sim.violation("report_contract", {"what": "no request after a proposal", "level": "actor"}, pm.pstr(p))
            got = h.requests[-1]["power"]
            if (got == x) != says_ok:
                sim.violation("report_contract", {"what": "adjust_to_bounds disagrees with what the manager does",
                                                  "level": "actor"},
                              f"report received by {probe['name']} (prio {probe['prio']}): bounds {_rep_key(rep)[1]}, "
                              f"adjust_to_bounds({x}) -> {tuple(pm.watts(v) for v in adj)}; request after proposing {x} W: "
                              f"{got} W; system bounds {sb}; higher-priority live {[pm.pstr(q) for q in live.values()]}")
            if len(live) >= 1:
                sim.nontrivial = True
            if ch.chance("probe_withdraws", 0.4):
                # the probe actor withdraws (neither power nor bounds): equivalent to it having no proposal at all
                nreq = len(h.requests)
                h.propose(0, {"actor": probe["name"], "prio": probe["prio"], "op": False, "pref": None, "lower": None,
                              "upper": None, "t": sim.loop.time()})
                await asyncio.sleep(0.01)
                sim.probe("null_proposal_at_actor_level")
                if len(h.requests) > nreq:
                    got0 = h.requests[-1]["power"]
                    ref0 = pm.reference(list(live.values()), sb)
                    if ref0["conflict_free"] and got0 not in ref0["accept"]:
                        sim.violation("null_proposal", {"what": "target after a withdrawal differs from the target without that actor",
                                                        "level": "actor"},
                                      f"{probe['name']} (prio {probe['prio']}) withdrew its proposal; request {got0} W, without "
                                      f"that actor the reference accepts {sorted(ref0['accept'])}; system bounds {sb}; "
                                      f"others {[pm.pstr(q) for q in live.values()]}")
        await h.stop()

    sim.run(main())


def scenario(sim: Sim) -> None:
    if sim.ch.weighted("variant", [4, 1]) == 0:
        sim.config["variant"] = "object"
        scenario_object(sim)
    else:
        sim.config["variant"] = "actor"
        scenario_actor(sim)


# --------------------------------------------------------------------------- in-process mutants
def _mut_status_includes_own_priority() -> Any:
    """get_status narrows by proposals of the *same* priority too (<= instead of <)."""
    from frequenz.sdk.microgrid._power_managing import _matryoshka as mt

    orig = mt.Matryoshka.get_status

    def get_status(self: Any, component_ids: Any, priority: int, system_bounds: Any) -> Any:
        return orig(self, component_ids, priority - 1, system_bounds)

    mt.Matryoshka.get_status = get_status  # type: ignore[method-assign]
    return lambda: setattr(mt.Matryoshka, "get_status", orig)


def _mut_higher_priority_pref_wins() -> Any:
    """The sweep keeps the first (highest-priority) preference instead of the last one."""
    from frequenz.sdk.microgrid._power_managing import _matryoshka as mt

    orig = mt.Matryoshka._calc_target_power

    def calc(self: Any, proposals: Any, system_bounds: Any) -> Any:
        first = None
        for p in sorted(proposals, reverse=True):
            if p.preferred_power is not None:
                first = p
                break
        if first is None:
            return orig(self, proposals, system_bounds)
        return orig(self, {first}, system_bounds)

    mt.Matryoshka._calc_target_power = calc  # type: ignore[method-assign]
    return lambda: setattr(mt.Matryoshka, "_calc_target_power", orig)


def _mut_null_proposal_resets_bounds() -> Any:
    """A proposal without bounds resets the running bounds to the system bounds."""
    from frequenz.quantities import Power
    from frequenz.sdk.microgrid._power_managing import _matryoshka as mt

    orig = mt.Matryoshka._calc_target_power

    def calc(self: Any, proposals: Any, system_bounds: Any) -> Any:
        props = sorted(proposals, reverse=True)
        cut = 0
        for i, p in enumerate(props):
            if p.preferred_power is None and p.bounds.lower is None and p.bounds.upper is None:
                cut = i + 1
        return orig(self, set(props[cut:]), system_bounds) if cut < len(props) else Power.zero()

    mt.Matryoshka._calc_target_power = calc  # type: ignore[method-assign]
    return lambda: setattr(mt.Matryoshka, "_calc_target_power", orig)


def _mut_exclusion_edge_far() -> Any:
    """A preference inside the exclusion zone goes to the *farther* edge."""
    from frequenz.sdk.microgrid._power_managing import _matryoshka as mt
    from frequenz.sdk.microgrid._power_managing import _bounds as b

    orig = b.clamp_to_bounds

    def clamp(value: Any, lower_bound: Any, upper_bound: Any, exclusion_bounds: Any) -> Any:
        r = orig(value, lower_bound, upper_bound, exclusion_bounds)
        if r[0] is not None and r[1] is not None and r[0] != r[1]:
            return (r[1], None) if (r[1] - value) > (value - r[0]) else (r[0], None)
        return r

    mt._bounds.clamp_to_bounds = clamp  # type: ignore[assignment]
    return lambda: setattr(b, "clamp_to_bounds", orig)


MUTANTS = {"status_includes_own_priority": _mut_status_includes_own_priority,
           "higher_priority_pref_wins": _mut_higher_priority_pref_wins,
           "null_proposal_resets_bounds": _mut_null_proposal_resets_bounds,
           "exclusion_edge_far": _mut_exclusion_edge_far}
