"""C14 - power requests for a component group are applied one at a time, latest wins.

Real: PowerDistributingActor (_run, _process_request, _handle_task_completion) on
real channels.  Stub: a probe ComponentManager substituted from the harness.
"""

from __future__ import annotations

import asyncio
from datetime import timedelta
from typing import Any

from sim import fakes
from sim.env import Sim

ID = "C14"
REAL = ["PowerDistributingActor._run/_process_request/_handle_task_completion", "Actor/BackgroundService",
        "frequenz.channels Broadcast"]
STUB = ["ComponentManager (probe recording enter/exit of distribute_power)", "request producer"]
RULE = ("one run = 1-3 component groups (disjoint, or overlapping but different), 5-40 requests (unique objects, values may repeat) sent through the real requests "
        "channel at drawn instants (bursts, exactly at/around the in-flight completion, long gaps), each "
        "distribute_power completing as drawn (synchronously, after one iteration, after a delay, raising); "
        "non-trivial = at least one request arrived while one of the same group was in flight; distinct = "
        "distinct abstract event sequence (kind, group) of sends/enters/exits"
        " Also: ids that collide in a hash table and equal sets built in another order, 9-14 groups with a burst of"
        " slow first requests (8% of runs), api_power_request_timeout 5 / 1.5 / 0.05 s.")
EXPECT_PROBES = ["arrival_while_in_flight", "send_at_completion", "sync_completion", "equal_valued_request", "actor_stop_start", "overlapping_groups",
                 "equal_set_other_iteration_order", "nine_or_more_groups"]
QUICK_RUNS = 6000
THOROUGH_RUNS = 400_000

GAPS = [0, 0, 1, 7, 50, 1_000, 20_000, 150_000, 700_000, 2_500_000]
DELAYS = [1, 30, 1_000, 50_000, 400_000, 1_500_000, 3_000_000]


class ProbeManager:
    def __init__(self, sim: Sim, st: "State") -> None:
        self.sim = sim
        self.st = st
        self.started = 0

    def component_ids(self) -> set[int]:
        return set()

    async def start(self) -> None:
        self.started += 1

    async def stop(self) -> None:
        pass

    async def distribute_power(self, request: Any) -> None:
        sim, st = self.sim, self.st
        g = st.group_of[frozenset(request.component_ids)]
        idx = st.idx_of.get(id(request))
        if idx is None:
            sim.violation("subsequence", {"what": "processed a request object that was never sent"},
                          f"group {g}: {request}")
        assert idx is not None
        st.on_enter(g, idx)
        mode = sim.ch.weighted("dist_mode", [3, 2, 6, 1, 2])
        delay = 0
        if idx <= st.slow_first:
            mode, delay = 2, 3_000_000      # many-groups mode: the first request of every group is slow (all in flight at once)
            st.planned_done[g] = sim.now_us + delay
        elif mode in (2, 4):
            delay = sim.ch.choice("dist_delay", DELAYS)
            st.planned_done[g] = sim.now_us + delay
        try:
            if mode == 1:
                await asyncio.sleep(0)
            elif mode in (2, 4):
                await asyncio.sleep(delay / 1e6)
            if mode in (3, 4):
                sim.fault("distribute_raises")
                raise RuntimeError("probe distribution failure")
            if mode == 0:
                sim.probe("sync_completion")
        finally:
            st.on_exit(g, idx, mode)


class State:
    def __init__(self, sim: Sim, ngroups: int) -> None:
        self.sim = sim
        # ids that collide in a small hash table (all = 0 mod 8): equal sets built in another order then iterate in
        # another order, which must not make them another group
        self.groups = [frozenset({16 * g + 8, 16 * g + 16}) for g in range(ngroups)]
        if ngroups > 1 and sim.ch.chance("overlapping_groups", 0.25):
            # different component sets that share a component are different groups (processed independently,
            # as the class documents); each of them still has to obey the property
            self.groups = [frozenset({g + 1, g + 2}) for g in range(ngroups)]
            sim.probe("overlapping_groups")
        self.slow_first = 0
        self.group_of = {ids: g for g, ids in enumerate(self.groups)}
        self.sent: list[list[int]] = [[] for _ in range(ngroups)]      # indices sent, per group
        self.started: list[list[int]] = [[] for _ in range(ngroups)]
        self.active: list[int | None] = [None] * ngroups
        self.planned_done: dict[int, int] = {}
        self.sent_at_idle: list[int] = [0] * ngroups    # latest idx sent before last idle point
        self.floor_next: list[int] = [0] * ngroups      # lower bound for the next started idx
        self.overlapped = False
        self.actor_stopped = False
        # requests issued before a stop() of the distributor: what a stop does with the request in flight and the one
        # parked behind it is outside the property (it speaks about a running distributor), so "the latest one is
        # applied" is only demanded for requests issued after the restart
        self.forgiven: list[int] = [0] * ngroups
        self.idx_of: dict[int, int] = {}                # id(Request object) -> send index (objects are kept alive)
        self.keep: list[Any] = []
        self.power_of: dict[int, float] = {}

    def on_send(self, g: int, idx: int) -> None:
        self.sent[g].append(idx)
        self.sim.ev("send", g, idx)
        if self.active[g] is not None:
            self.overlapped = True
            self.sim.nontrivial = True
            self.sim.probe("arrival_while_in_flight")

    def on_enter(self, g: int, idx: int) -> None:
        sim = self.sim
        sim.ev("enter", g, idx)
        if self.active[g] is not None:
            sim.violation("mutual_exclusion", {"what": "two distributions of one group overlap"},
                          f"group {g}: request {idx} started while {self.active[g]} in flight")
        if idx not in self.sent[g]:
            sim.violation("subsequence", {"what": "processed a request that was never sent"},
                          f"group {g}: {idx}")
        if self.started[g] and idx <= self.started[g][-1]:
            sim.violation("subsequence", {"what": "stale or repeated request processed"},
                          f"group {g}: {idx} after {self.started[g][-1]}")
        if idx < self.floor_next[g]:
            sim.violation("latest_wins", {"what": "superseded pending request processed"},
                          f"group {g}: started {idx} although {self.floor_next[g]} had already been "
                          f"received while the previous one was in flight")
        self.started[g].append(idx)
        self.active[g] = idx

    def on_exit(self, g: int, idx: int, mode: int) -> None:
        self.sim.ev("exit", g, idx, mode)
        self.active[g] = None
        self.planned_done.pop(g, None)
        # whatever had been received at the last idle point must win over older ones
        self.floor_next[g] = max(self.floor_next[g], self.sent_at_idle[g])

    def on_idle(self) -> None:
        sim = self.sim
        if self.actor_stopped:
            return   # a stopped actor does not consume its requests: nothing can be deduced at idle points
        for g in range(len(self.groups)):
            latest = self.sent[g][-1] if self.sent[g] else 0
            self.sent_at_idle[g] = latest
            if self.active[g] is None and latest and latest > self.forgiven[g]:
                last_started = self.started[g][-1] if self.started[g] else 0
                if last_started != latest:
                    sim.violation(
                        "applied_when_idle",
                        {"what": "latest request not applied although nothing is in flight for its group"},
                        f"group {g}: latest sent {latest}, last started {last_started}, loop idle")


def scenario(sim: Sim) -> None:
    from frequenz.channels import Broadcast
    from frequenz.client.microgrid import ComponentCategory
    from frequenz.quantities import Power
    from frequenz.sdk.microgrid._power_distributing import PowerDistributingActor, Request

    ch = sim.ch
    ngroups = 1 + ch.weighted("ngroups", [3, 2, 1])
    many = ch.chance("many_groups", 0.08)
    if many:
        ngroups = ch.int_between("ngroups_many", 9, 14)      # "requests for disjoint groups do not delay each other"
        sim.probe("nine_or_more_groups")
    nreq = ch.int_between("nreq", 5, sim.scale(40, 45)) + (ngroups if many else 0)
    cost = ch.weighted("cost_mode", [2, 1, 3])
    sim.set_cost_mode(cost, ch.draw("cost_seed", 1 << 16) if cost == 2 else 0)
    sim.config.update(ngroups=ngroups, nreq=nreq, cost=cost)
    st = State(sim, ngroups)
    if many:
        st.slow_first = ngroups

    comps, conns = fakes.battery_graph([([g * 10 + 3], [g * 10 + 4]) for g in range(ngroups)])
    api = fakes.FakeMicrogridApi(sim, comps, conns)
    fakes.install_connection_manager(api)

    async def main() -> None:
        req_ch: Broadcast[Any] = Broadcast(name="requests")
        res_ch: Broadcast[Any] = Broadcast(name="results")
        st_ch: Broadcast[Any] = Broadcast(name="status")
        actor = PowerDistributingActor(
            requests_receiver=req_ch.new_receiver(),
            results_sender=res_ch.new_sender(),
            component_pool_status_sender=st_ch.new_sender(),
            api_power_request_timeout=timedelta(seconds=ch.choice("api_timeout_s", [5.0, 5.0, 0.05, 1.5])),
            component_category=ComponentCategory.BATTERY,
        )
        probe = ProbeManager(sim, st)
        real_manager = actor._component_manager
        actor._component_manager = probe  # type: ignore[assignment]
        actor.start()
        tx = req_ch.new_sender()
        await asyncio.sleep(0.001)
        sim.loop.idle_hooks.append(st.on_idle)

        t = sim.now_us
        restart_at = ch.int_between("restart_at_request", 2, nreq) if ch.chance("stop_start", 0.15) else None
        expected_starts = 1
        for k in range(1, nreq + 1):
            if k == restart_at:
                # the actor is stopped and started again while requests may be in flight / pending; requests sent
                # meanwhile wait in the channel.  Nothing of the property may break across the restart.
                sim.probe("actor_stop_start")
                sim.fault("actor_stop_start")
                sim.note("stop() + start() of the distributor")
                sim.ev("restart", "", k)
                st.actor_stopped = True
                for g_ in range(ngroups):
                    st.forgiven[g_] = st.sent[g_][-1] if st.sent[g_] else 0
                await actor.stop()
                if ch.chance("gap_while_stopped", 0.5):
                    await asyncio.sleep(ch.choice("stopped_for", [0.0, 0.01, 1.0]))
                actor.start()
                expected_starts += 1
                await asyncio.sleep(0)          # let the new run task get going before deducing anything again
                await asyncio.sleep(0.000001)
                st.actor_stopped = False
            g = ch.draw("group", ngroups)
            kind = ch.weighted("gap_kind", [4, 3])
            if many and k <= ngroups:
                g, kind = k - 1, 0       # first one request per group, in a burst
            if kind == 1 and g in st.planned_done:
                # aim at the completion of the in-flight distribution: -1, 0, +1 us around it
                off = ch.draw("around", 3) - 1
                target = max(t, st.planned_done[g] + off)
                sim.probe("send_at_completion")
            else:
                target = t + (ch.choice("burst_gap", [0, 0, 1, 50]) if many and k <= ngroups else ch.choice("gap", GAPS))
            t = target
            if target > sim.now_us:
                await _until(sim, target)
            # powers are usually unique, but sometimes a request repeats the value of an earlier one of the same
            # group (equal by value, e.g. a keep-alive re-send): it is still a new request and must win
            power = float(k)
            if st.sent[g] and ch.chance("same_value_as_earlier", 0.15):
                back = st.sent[g][-1 - ch.draw("which_earlier", min(3, len(st.sent[g])))]
                power = st.power_of[back]
                sim.probe("equal_valued_request")
            ids: Any = st.groups[g]
            if ch.chance("ids_built_in_other_order", 0.3):
                ids = set(sorted(ids, reverse=True))        # equal set, other insertion (and iteration) order, other type
                sim.probe("equal_set_other_iteration_order")
            req = Request(power=Power.from_watts(power), component_ids=ids, adjust_power=True)
            st.idx_of[id(req)] = k
            st.keep.append(req)
            st.power_of[k] = power
            st.on_send(g, k)
            sim.note(f"send request #{k} group {g} power {power}")
            sim.spawn(tx.send(req))
            if ch.chance("stall", 0.03):
                sim.stall(ch.choice("stall_us", [100, 10_000, 500_000, 2_000_000]))
        # quiescence: let everything finish (no fault is injected any more)
        await asyncio.sleep(20.0)
        for g in range(ngroups):
            if st.active[g] is not None:
                sim.violation("liveness", {"what": "distribution still active long after the last request"}, f"group {g}")
            if st.sent[g] and st.sent[g][-1] > st.forgiven[g] and (not st.started[g] or st.started[g][-1] != st.sent[g][-1]):
                sim.violation("eventually_latest", {"what": "last request of a group never applied"},
                              f"group {g}: sent {st.sent[g][-1]}, started {st.started[g][-3:]}")
        if probe.started != expected_starts:
            sim.violation("actor_restarted", {"what": "actor run logic restarted by itself during the run"},
                          f"component manager started {probe.started} times, expected {expected_starts}")
        sim.loop.idle_hooks.clear()
        await actor.stop()
        await real_manager.stop()

    sim.run(main())


async def _until(sim: Sim, when_us: int) -> None:
    """Suspend the driver until the virtual instant `when_us` (exact, via an external event)."""
    fut: asyncio.Future[None] = sim.loop.create_future()
    sim.loop.at_abs(when_us, lambda: fut.done() or fut.set_result(None))
    await fut


# --------------------------------------------------------------------------- in-process mutants
def _mut_no_pending_slot() -> Any:
    """Second task started while one runs (no coalescing at all)."""
    from frequenz.sdk.microgrid._power_distributing import power_distributing as pd

    orig = pd.PowerDistributingActor._run

    async def _run(self: Any) -> None:
        await self._component_manager.start()
        async for request in self._requests_receiver:
            self._process_request(frozenset(request.component_ids), request)

    pd.PowerDistributingActor._run = _run  # type: ignore[method-assign]
    return lambda: setattr(pd.PowerDistributingActor, "_run", orig)


def _mut_pending_not_started_after_failure() -> Any:
    """Pending request is dropped when the in-flight one raised."""
    from frequenz.sdk.microgrid._power_distributing import power_distributing as pd

    orig = pd.PowerDistributingActor._handle_task_completion

    def _h(self: Any, req_id: Any, request: Any, task: Any) -> None:
        try:
            task.result()
        except Exception:  # pylint: disable=broad-except
            self._pending_requests.pop(req_id, None)
            self._processing_tasks.pop(req_id, None)
            return
        orig(self, req_id, request, task)

    pd.PowerDistributingActor._handle_task_completion = _h  # type: ignore[method-assign]
    return lambda: setattr(pd.PowerDistributingActor, "_handle_task_completion", orig)


def _mut_keep_first_pending() -> Any:
    """Pending slot keeps the *first* waiting request instead of the latest."""
    from frequenz.sdk.microgrid._power_distributing import power_distributing as pd

    orig = pd.PowerDistributingActor._run

    async def _run(self: Any) -> None:
        await self._component_manager.start()
        async for request in self._requests_receiver:
            req_id = frozenset(request.component_ids)
            if req_id in self._processing_tasks:
                self._pending_requests.setdefault(req_id, request)
            else:
                self._process_request(req_id, request)

    pd.PowerDistributingActor._run = _run  # type: ignore[method-assign]
    return lambda: setattr(pd.PowerDistributingActor, "_run", orig)


MUTANTS = {
    "no_pending_slot": _mut_no_pending_slot,
    "pending_dropped_after_failure": _mut_pending_not_started_after_failure,
    "keep_first_pending": _mut_keep_first_pending,
}
