"""C20 - each component message reaches every subscribed metric stream exactly once.

Real: DataSourcingActor, MicrogridApiSource (add_metric, _update_streams cancel-and-recreate,
_handle_data_stream, process_msg task groups), ChannelRegistry.  Stub: the microgrid API data streams.
The simulator decides when subscription requests arrive relative to the data messages (before the
first, between two, in the same loop iteration, back-to-back bursts), plus exact duplicates and
requests for unknown component ids.
"""

from __future__ import annotations

import asyncio
from datetime import timedelta
from typing import Any

from sim import fakes
from sim.env import Sim

ID = "C20"
REAL = ["DataSourcingActor", "MicrogridApiSource.add_metric / _update_streams / _handle_data_stream / process_msg",
        "ChannelRegistry.get_or_create", "run_forever"]
STUB = ["microgrid API data streams (fake)", "subscribers (harness receivers created before each request)"]
RULE = ("one run = 3-5 components of all four categories, 60-200 events: a data message of a component (per-component "
        "sequence number in every metric field) or a subscription request (new (namespace, metric), exact duplicate, unknown "
        "component id), separated by no yield / sleep(0) / small gaps / bursts; device clocks increasing / coarse (equal stamps) / "
        "stepping back; API down at drawn instants (actor restart); non-trivial = a subscription arrived while "
        "the component was already streaming (task hand-over); distinct = abstract digest of (event kind, component) sequence"
        " All metrics of every category are requested, every message field carries its own offset; the API stream"
        " opening takes a drawn time in 30% of runs; an actor restart that no injected API failure explains is a"
        " violation.")
QUICK_RUNS = 4000
THOROUGH_RUNS = 250_000
EXPECT_PROBES = ["subscription_during_stream", "duplicate_request", "unknown_component_request", "back_to_back_subscriptions",
                 "request_same_iteration_as_message", "all_four_categories",
                 "actor_restarted_after_api_failure", "device_clock_coarse", "device_clock_steps_back",
                 "subscription_while_api_stream_opening"]


def scenario(sim: Sim) -> None:
    from frequenz.channels import Broadcast
    from frequenz.client.microgrid import Component, ComponentCategory, ComponentMetricId, Connection, InverterType
    from frequenz.quantities import Quantity
    from frequenz.sdk._internal._channels import ChannelRegistry
    from frequenz.sdk.microgrid._data_sourcing import ComponentMetricRequest, DataSourcingActor
    from frequenz.sdk.timeseries import Sample

    M = ComponentMetricId
    ch = sim.ch
    # Every field of a message carries n + k/64 with its own k, n being the per-component sequence number; the table
    # below is written from the meaning of the metric names (not taken from the code under test): metric -> field.
    F = {"active_power": 0, "active_power_per_phase": (1, 2, 3), "current_per_phase": (4, 5, 6), "voltage_per_phase": (7, 8, 9),
         "frequency": 10, "reactive_power": 11, "reactive_power_per_phase": (12, 13, 14),
         "active_power_inclusion_lower_bound": 15, "active_power_exclusion_lower_bound": 16,
         "active_power_exclusion_upper_bound": 17, "active_power_inclusion_upper_bound": 18,
         "soc": 0, "soc_lower_bound": 19, "soc_upper_bound": 20, "capacity": 21, "power_inclusion_lower_bound": 22,
         "power_exclusion_lower_bound": 23, "power_exclusion_upper_bound": 24, "power_inclusion_upper_bound": 25,
         "temperature": 26}
    ac = {M.ACTIVE_POWER: F["active_power"], M.FREQUENCY: F["frequency"], M.REACTIVE_POWER: F["reactive_power"]}
    for ph in range(3):
        ac[getattr(M, f"ACTIVE_POWER_PHASE_{ph + 1}")] = F["active_power_per_phase"][ph]
        ac[getattr(M, f"REACTIVE_POWER_PHASE_{ph + 1}")] = F["reactive_power_per_phase"][ph]
        ac[getattr(M, f"CURRENT_PHASE_{ph + 1}")] = F["current_per_phase"][ph]
        ac[getattr(M, f"VOLTAGE_PHASE_{ph + 1}")] = F["voltage_per_phase"][ph]
    inv = dict(ac)
    inv.update({M.ACTIVE_POWER_INCLUSION_LOWER_BOUND: F["active_power_inclusion_lower_bound"],
                M.ACTIVE_POWER_EXCLUSION_LOWER_BOUND: F["active_power_exclusion_lower_bound"],
                M.ACTIVE_POWER_EXCLUSION_UPPER_BOUND: F["active_power_exclusion_upper_bound"],
                M.ACTIVE_POWER_INCLUSION_UPPER_BOUND: F["active_power_inclusion_upper_bound"]})
    bat = {M.SOC: F["soc"], M.SOC_LOWER_BOUND: F["soc_lower_bound"], M.SOC_UPPER_BOUND: F["soc_upper_bound"],
           M.CAPACITY: F["capacity"], M.TEMPERATURE: F["temperature"],
           M.POWER_INCLUSION_LOWER_BOUND: F["power_inclusion_lower_bound"],
           M.POWER_EXCLUSION_LOWER_BOUND: F["power_exclusion_lower_bound"],
           M.POWER_EXCLUSION_UPPER_BOUND: F["power_exclusion_upper_bound"],
           M.POWER_INCLUSION_UPPER_BOUND: F["power_inclusion_upper_bound"]}
    # component kind -> (category, {metric: offset of its field})
    kinds = {
        "meter": (ComponentCategory.METER, {m: k / 64 for m, k in ac.items()}),
        "inverter": (ComponentCategory.INVERTER, {m: k / 64 for m, k in inv.items()}),
        "battery": (ComponentCategory.BATTERY, {m: k / 64 for m, k in bat.items()}),
        "ev": (ComponentCategory.EV_CHARGER, {m: k / 64 for m, k in ac.items()}),
    }
    layout = ["meter", "inverter", "battery", "ev", "meter"][: ch.int_between("ncomp", 3, 5)]
    if len(set(layout)) == 4:
        sim.probe("all_four_categories")
    comps = {Component(1, ComponentCategory.GRID)}
    conns: set[Any] = set()
    cinfo: dict[int, str] = {}
    for j, k in enumerate(layout):
        cid = 10 + j
        cat = kinds[k][0]
        comps.add(Component(cid, cat, InverterType.BATTERY if k == "inverter" else None))
        conns.add(Connection(1, cid))
        cinfo[cid] = k
    api = fakes.FakeMicrogridApi(sim, comps, conns)
    fakes.install_connection_manager(api)
    cids = sorted(cinfo)
    sim.set_cost_mode(ch.weighted("cost_mode", [3, 1, 1]), ch.draw("cost_seed", 1 << 16))
    sim.config.update(layout=layout)

    # timestamps the devices put on their messages: strictly increasing, a coarse device clock (pairs of consecutive
    # messages carry the same timestamp) or a clock that steps back now and then; delivery must not depend on them
    ts_mode = ch.weighted("device_clock", [3, 1, 1])
    if ts_mode:
        sim.probe("device_clock_coarse" if ts_mode == 1 else "device_clock_steps_back")

    def ts_of(n: int) -> Any:
        if ts_mode == 1:
            return sim.epoch + timedelta(seconds=n // 2)
        if ts_mode == 2 and n % 5 == 4:
            return sim.epoch + timedelta(seconds=n - 3)
        return sim.epoch + timedelta(seconds=n)

    def build(cid: int, n: int) -> Any:
        k = cinfo[cid]
        ts = ts_of(n)

        def fld(name: str) -> Any:
            o = F[name]
            return tuple(n + x / 64 for x in o) if isinstance(o, tuple) else n + o / 64

        acf = {x: fld(x) for x in ("active_power", "active_power_per_phase", "current_per_phase", "voltage_per_phase",
                                   "frequency", "reactive_power", "reactive_power_per_phase")}
        bounds = {x: fld(x) for x in ("active_power_inclusion_lower_bound", "active_power_exclusion_lower_bound",
                                      "active_power_exclusion_upper_bound", "active_power_inclusion_upper_bound")}
        if k == "meter":
            return fakes.meter_data(cid, ts, **acf)
        if k == "inverter":
            return fakes.inverter_data(cid, ts, **acf, **bounds)
        if k == "battery":
            return fakes.battery_data(cid, ts, **{x: fld(x) for x in (
                "soc", "soc_lower_bound", "soc_upper_bound", "capacity", "temperature", "power_inclusion_lower_bound",
                "power_exclusion_lower_bound", "power_exclusion_upper_bound", "power_inclusion_upper_bound")})
        return fakes.ev_data(cid, ts, **acf, **bounds)

    restart_delay_us = ch.choice("restart_delay_us", [2_000_000, 0, 50_000])
    seq = {c: 0 for c in cids}                 # messages sent so far per component
    seq_idle = {c: 0 for c in cids}            # ... as of the last idle point
    subs: dict[str, dict[str, Any]] = {}       # channel name -> subscription record
    awaiting_idle: list[dict[str, Any]] = []
    streaming: set[int] = set()

    # opening a component's API stream takes time in some runs (the client call is an `async def`): subscriptions that
    # arrive while it is in flight cancel and restart the opening; all of them must be served once it is open
    opening: dict[int, int] = {}
    slow_open = ch.chance("slow_api_stream_opening", 0.3)
    if slow_open:
        api.open_delay_fn = lambda cid: ch.choice("open_delay_us", [0, 500, 20_000, 300_000])

        def on_open(cid: int, begin: bool) -> None:
            opening[cid] = opening.get(cid, 0) + (1 if begin else -1)
            if begin and any(s2["cid"] == cid for s2 in subs.values()) and len([1 for s2 in subs.values() if s2["cid"] == cid]) > 1:
                sim.probe("subscription_while_api_stream_opening")

        api.on_open = on_open

    restarting = [False]    # the actor is inside its restart delay (observed, a stall can stretch it)

    def on_idle() -> None:
        for c in cids:
            seq_idle[c] = seq[c]
        if api.components_failures or restarting[0] or (
                api.failure_times and sim.now_us <= api.failure_times[-1] + restart_delay_us + 1000):
            return      # the actor is (about to be) waiting out its restart delay: requests are not consumed yet
        for s in list(awaiting_idle):
            if opening.get(s["cid"], 0):
                continue    # the API stream of this component is still being opened: nothing can flow yet
            s["settled_seq"] = seq[s["cid"]]
            awaiting_idle.remove(s)

    async def main() -> None:
        reg = ChannelRegistry(name="reg")
        req_ch: Any = Broadcast(name="ds-requests")
        actor = DataSourcingActor(req_ch.new_receiver(limit=1000), reg)
        type(actor).RESTART_DELAY = timedelta(microseconds=restart_delay_us)
        orig_delay = getattr(actor, "_delay_if_restart", None)      # (private: observed if it exists, else time-based only)

        async def observed_delay(iteration: int) -> None:
            restarting[0] = iteration > 0
            if iteration > len(api.failure_times):
                # every restart must be explained by an API failure the harness injected
                sim.violation("liveness", {"what": "actor run logic failed and restarted without an injected fault"},
                              f"restart #{iteration} at t={sim.now_us} us, injected API failures so far: {len(api.failure_times)}")
            try:
                await orig_delay(iteration)
            finally:
                restarting[0] = False

        if orig_delay is not None:
            actor._delay_if_restart = observed_delay  # type: ignore[method-assign]
        actor.start()
        req_tx = req_ch.new_sender()
        await asyncio.sleep(0.001)
        sim.loop.idle_hooks.append(on_idle)
        readers: list[Any] = []
        last_was_sub = False
        last_was_msg_noyield = False

        async def subscribe(ns: str, cid: int, metric: Any, known: bool) -> None:
            req = ComponentMetricRequest(ns, cid, metric, None)
            key = req.get_channel_name()
            if known and key not in subs:
                rx = reg.get_or_create(Sample[Quantity], key).new_receiver(limit=100_000)
                rec = {"cid": cid, "metric": metric, "got": [], "req_seq_idle": seq_idle[cid], "req_seq": seq[cid],
                       "settled_seq": None, "key": key, "off": kinds[cinfo[cid]][1][metric], "ns": ns}
                subs[key] = rec
                awaiting_idle.append(rec)

                async def rd(rec: dict[str, Any] = rec, rx: Any = rx) -> None:
                    async for s in rx:
                        rec["got"].append((s.timestamp, s.value.base_value))

                readers.append(sim.spawn(rd()))
                if cid in streaming:
                    sim.probe("subscription_during_stream")
                    sim.nontrivial = True
                streaming.add(cid)
            elif known:
                sim.probe("duplicate_request")
            sim.ev("subscribe", cid, ns, metric.name)
            sim.note(f"request ns={ns} cid={cid} {metric.name}")
            await req_tx.send(req)

        for _ in range(ch.int_between("nevents", 60, sim.scale(200, 500))):
            ek = ch.weighted("event", [12, 3, 1, 1])
            if ek == 0:
                cid = cids[ch.draw("msg_cid", len(cids))]
                seq[cid] += 1
                sim.ev("msg", cid, seq[cid])
                await api.tx[cid].send(build(cid, seq[cid]))
                last_was_sub = False
            else:
                if last_was_sub:
                    sim.probe("back_to_back_subscriptions")
                if last_was_msg_noyield:
                    sim.probe("request_same_iteration_as_message")
                if ek == 1:
                    cid = cids[ch.draw("sub_cid", len(cids))]
                    metrics = sorted(kinds[cinfo[cid]][1], key=lambda m: m.name)
                    await subscribe(ch.choice("ns", ["a", "b", "c"]), cid, metrics[ch.draw("metric", len(metrics))], True)
                elif ek == 2 and subs:
                    keys = sorted(subs)
                    s = subs[keys[ch.draw("dup", len(keys))]]
                    await subscribe(s["ns"], s["cid"], s["metric"], True)
                else:
                    sim.probe("unknown_component_request")
                    if subs and not awaiting_idle and ch.chance("api_down", 0.15):
                        # (only once the source has its component-category cache: then only the unknown id is looked
                        # up through the API, so the failure hits exactly this request and no legitimate one)
                        # the API is down when the source looks the unknown id up: components() raises, the
                        # actor's run logic fails and is restarted after the restart delay.  Requests sent
                        # meanwhile wait in the channel; existing streams must go on undisturbed and nothing
                        # may be lost or duplicated afterwards.
                        api.components_failures = 1
                        sim.probe("actor_restarted_after_api_failure")
                        sim.note("API down for the next components() call")
                    await subscribe("a", 999, M.ACTIVE_POWER, False)
                last_was_sub = True
            g = ch.weighted("gap", [4, 3, 2, 1])
            last_was_msg_noyield = (ek == 0 and g == 0)
            if g == 1:
                await asyncio.sleep(0)
            elif g == 2:
                await asyncio.sleep(ch.int_between("gap_us", 1, 3000) / 1e6)
            elif g == 3:
                await asyncio.sleep(ch.int_between("gap_ms", 5, 400) / 1e3)
            if ch.chance("stall", 0.01):
                sim.stall(ch.choice("stall_us", [1000, 200_000]))
        await asyncio.sleep(3.0)
        sim.loop.idle_hooks.remove(on_idle)
        for r in readers:
            r.cancel()
        if not actor.is_running:
            sim.violation("liveness", {"what": "actor stopped"}, "DataSourcingActor not running at the end")
        await actor.stop()
        # ---- oracle
        for key, s in sorted(subs.items()):
            cid = s["cid"]
            vals = [v - s["off"] for _, v in s["got"]]
            settled = s["settled_seq"] if s["settled_seq"] is not None else seq[cid]
            sig: dict[str, Any] = {}
            if not vals:
                if seq[cid] > settled:
                    sim.violation("delivered", dict(sig, what="nothing delivered"),
                                  f"{key}: {seq[cid] - settled} messages were sent after the subscription was settled, none arrived")
                continue
            ns = [int(round(v)) for v in vals]
            if any(abs(v - n) > 1e-9 for v, n in zip(vals, ns)):
                sim.violation("metric_value", sig, f"{key}: values {vals[:6]} are not this metric's field of the messages")
            for (ts, _), n in zip(s["got"], ns):
                if ts != ts_of(n):
                    sim.violation("metric_value", dict(sig, what="timestamp"), f"{key}: sample for message {n} stamped {ts}")
            for a, b in zip(ns, ns[1:]):
                if b != a + 1:
                    what = "duplicate" if b == a else ("reordered" if b < a else "lost")
                    sim.violation("exactly_once_in_order", dict(sig, what=what),
                                  f"{key}: after message {a} came {b}; stream {ns[:40]}")
            if ns[-1] != seq[cid]:
                sim.violation("exactly_once_in_order", dict(sig, what="lost at the end"),
                              f"{key}: last delivered message {ns[-1]}, last sent {seq[cid]}")
            if ns[0] > settled + 1:
                sim.violation("exactly_once_in_order", dict(sig, what="lost at the start"),
                              f"{key}: first delivered message {ns[0]} but message {settled + 1} was sent after the "
                              f"subscription had been settled (loop idle)")
            if ns[0] <= s["req_seq_idle"]:
                sim.violation("exactly_once_in_order", dict(sig, what="message from before the subscription"),
                              f"{key}: first delivered message {ns[0]} had already been processed (loop idle at "
                              f"{s['req_seq_idle']}) before the request was sent")

    sim.run(main())


# --------------------------------------------------------------------------- in-process mutants
def _mut_old_task_not_cancelled() -> Any:
    """_update_streams starts a new streaming task without cancelling the old one (duplicates)."""
    from frequenz.sdk._internal._asyncio import run_forever
    from frequenz.sdk.microgrid._data_sourcing import microgrid_api_source as mas

    orig = mas.MicrogridApiSource._update_streams
    keep: list[Any] = []

    async def upd(self: Any, comp_id: int, category: Any) -> None:
        if comp_id in self.comp_data_tasks:
            keep.append(self.comp_data_tasks[comp_id])
        self.comp_data_tasks[comp_id] = asyncio.create_task(run_forever(lambda: self._handle_data_stream(comp_id, category)))

    mas.MicrogridApiSource._update_streams = upd  # type: ignore[method-assign]
    return lambda: setattr(mas.MicrogridApiSource, "_update_streams", orig)


def _mut_receiver_recreated() -> Any:
    """The API receiver is re-created on every stream update (messages in the old queue are lost)."""
    from frequenz.sdk.microgrid._data_sourcing import microgrid_api_source as mas

    orig = mas.MicrogridApiSource._update_streams

    async def upd(self: Any, comp_id: int, category: Any) -> None:
        self.comp_data_receivers.pop(comp_id, None)
        await orig(self, comp_id, category)

    mas.MicrogridApiSource._update_streams = upd  # type: ignore[method-assign]
    return lambda: setattr(mas.MicrogridApiSource, "_update_streams", orig)


def _mut_duplicate_not_deduped() -> Any:
    """A repeated identical request is appended again (two senders for one channel -> duplicates)."""
    from frequenz.sdk.microgrid._data_sourcing import microgrid_api_source as mas

    orig = mas.MicrogridApiSource.add_metric

    async def add(self: Any, request: Any) -> None:
        comp_id = request.component_id
        category = await self._get_component_category(comp_id)
        if category is None:
            return
        self._req_streaming_metrics.setdefault(comp_id, {}).setdefault(request.metric_id, []).append(request)
        await self._update_streams(comp_id, category)

    mas.MicrogridApiSource.add_metric = add  # type: ignore[method-assign]
    return lambda: setattr(mas.MicrogridApiSource, "add_metric", orig)


def _mut_cancel_inflight_sends() -> Any:
    """Cancelling the stream task also cancels the in-flight process_msg tasks (loss at hand-over)."""
    from frequenz.sdk.microgrid._data_sourcing import microgrid_api_source as mas

    orig = mas.MicrogridApiSource._update_streams

    async def upd(self: Any, comp_id: int, category: Any) -> None:
        for t in asyncio.all_tasks():
            if t.get_name() == f"process_msg:cid={comp_id}" and not t.done():
                t.cancel()
        await orig(self, comp_id, category)

    mas.MicrogridApiSource._update_streams = upd  # type: ignore[method-assign]
    return lambda: setattr(mas.MicrogridApiSource, "_update_streams", orig)


MUTANTS = {"old_task_not_cancelled": _mut_old_task_not_cancelled, "receiver_recreated": _mut_receiver_recreated,
           "duplicate_not_deduped": _mut_duplicate_not_deduped, "cancel_inflight_sends": _mut_cancel_inflight_sends}
