"""C13 - missing formula inputs propagate as None, or count as zero on request.

Fault: per (stream, timestamp) the delivered value is corrupted to None / NaN / +inf / -inf, divisor
inputs are additionally made exactly 0.  No clause compares with the harness' own arithmetic (R4):
  (a) one output sample per input timestamp, consecutive;
  (b) output(T) is None  <=>  a needed input is missing at T where it is not treated as zero, or a
      divisor atom is 0 (or missing-as-zero) at T  - evaluated hierarchically over engine boundaries;
  (c) replacing every missing value on nones_are_zeros streams by an explicit 0.0 gives the same output;
  (d) an emitted value is finite: inputs near the float limit make sums/products overflow, which must give
      None ("the result is undefined or not finite"), never +-inf.
"""

from __future__ import annotations

import asyncio
import math
from typing import Any

from props import formula_common as fc
from sim.env import Sim

ID = "C13"
REAL = ["MetricFetcher.apply (NaN / 0.0 for missing)", "formula steps Adder..Production, Divider, Maximizer, Minimizer",
        "FormulaEvaluator.apply (NaN/inf -> None)", "FormulaEngine._run", "FormulaBuilder / HigherOrderFormulaBuilder.build(nones_are_zeros)"]
STUB = ["input stream producers", "output consumer"]
RULE = ("one run = a drawn expression over + - * / max min consumption production and constants (flat builder or "
        "composition API with sub-engines), per-stream and per-builder nones_are_zeros flags, 4-25 rounds in which each "
        "(stream, T) value is valid or corrupted (None/NaN/+inf/-inf, zero for divisors); non-trivial = at least one "
        "corrupted value delivered; distinct = abstract digest of (corruption kind, stream) sequence"
        " Also: per-stream UTC offsets; for inputs near the float limit the finiteness of the result is decided by"
        " evaluating the expression in IEEE doubles."
        " Also: divisors of 4e-10; composed builders built twice under one name with the other nones_are_zeros"
        " (25%).")
QUICK_RUNS = 5000
THOROUGH_RUNS = 300_000
EXPECT_PROBES = ["staggered_starts", "overflow_to_none", "missing_in_max_min_rhs", "missing_in_max_min_lhs", "division_by_zero", "missing_as_zero",
                 "sub_engine_none_as_zero"]

CORRUPT = ["ok", "none", "nan", "+inf", "-inf", "zero", "huge+", "huge-", "tiny"]


def _corrupt_value(kind: str, v: float) -> float | None:
    return {"ok": v, "none": None, "nan": math.nan, "+inf": math.inf, "-inf": -math.inf, "zero": 0.0,
            "huge+": 1.5e308, "huge-": -1.5e308, "tiny": 4e-10}[kind]


class Expect:
    """Missing-ness (not value) of every node at one timestamp; divisor atoms also carry zero-ness."""

    def __init__(self, sim: Sim, kinds: list[str], leaf_naz: list[bool], composed: bool) -> None:
        self.sim = sim
        self.kinds = kinds
        self.leaf_naz = leaf_naz
        self.composed = composed
        self.reasons: list[str] = []

    def leaf(self, i: int, enclosing_naz: bool) -> tuple[bool, bool]:
        """-> (missing, is_zero) as seen by the consuming builder."""
        k = self.kinds[i]
        missing = k in ("none", "nan", "+inf", "-inf")
        zero = k == "zero"
        if missing and (self.leaf_naz[i] or (self.composed and enclosing_naz)):
            self.sim.probe("missing_as_zero")
            return False, True
        return missing, zero

    def node(self, t: Any, enclosing_naz: bool) -> tuple[bool, bool]:
        k = t[0]
        if k == "leaf":
            return self.leaf(t[1], enclosing_naz)
        if k in ("const_f", "const_q"):
            return False, t[1] == 0.0
        if k == "un":
            m, _ = self.node(t[2], enclosing_naz)
            if m:
                self.reasons.append(f"{t[1]}:operand")
            return m, False
        if k == "sub":
            m, _ = self.node(t[1], t[2])
            if m and enclosing_naz:
                self.sim.probe("sub_engine_none_as_zero")
                return False, True
            return m, False
        op = t[1]
        lm, _ = self.node(t[2], enclosing_naz)
        rm, rz = self.node(t[3], enclosing_naz)
        if op in ("max", "min"):
            if rm and not lm:
                self.sim.probe("missing_in_max_min_rhs")
            if lm and not rm:
                self.sim.probe("missing_in_max_min_lhs")
        if lm and t[2][0] == "leaf":
            self.reasons.append(f"{op}:lhs")
        if rm and t[3][0] == "leaf":
            self.reasons.append(f"{op}:rhs")
        m = lm or rm
        if op == "/" and rz and not rm:
            self.sim.probe("division_by_zero")
            self.reasons.append("/:zero_divisor")
            m = True
        return m, False


def _float_value(t: Any, vals: list[float | None], leaf_naz: list[bool], composed: bool, enclosing_naz: bool) -> float:
    """IEEE value of the expression at one timestamp, NaN = missing/undefined.  Only used to decide *finiteness* when
    inputs near the float limit are involved (an intermediate may overflow to +-inf and the result still be finite:
    x / inf == 0, min(inf, c) == c; a sub-engine however emits None for a non-finite result of its own)."""
    k = t[0]
    if k == "leaf":
        v = vals[t[1]]
        if v is None or math.isnan(v) or math.isinf(v):
            return 0.0 if (leaf_naz[t[1]] or (composed and enclosing_naz)) else math.nan
        return v
    if k in ("const_f", "const_q"):
        return float(t[1])
    if k == "un":
        x = _float_value(t[2], vals, leaf_naz, composed, enclosing_naz)
        if math.isnan(x):
            return x
        return max(x, 0.0) if t[1] == "consumption" else max(-x, 0.0)
    if k == "sub":
        x = _float_value(t[1], vals, leaf_naz, composed, t[2])
        if math.isnan(x) or math.isinf(x):
            return 0.0 if enclosing_naz else math.nan
        return x
    op = t[1]
    a = _float_value(t[2], vals, leaf_naz, composed, enclosing_naz)
    b = _float_value(t[3], vals, leaf_naz, composed, enclosing_naz)
    if math.isnan(a) or math.isnan(b):
        return math.nan
    if op == "+":
        return a + b
    if op == "-":
        return a - b
    if op == "*":
        return a * b
    if op == "/":
        return math.nan if b == 0.0 else a / b
    return max(a, b) if op == "max" else min(a, b)


async def _run_formula(sim: Sim, spec: dict[str, Any], table: list[list[float | None]], tag: str,
                       schedule: list[list[int]] | None) -> list[tuple[int, float | None]]:
    from frequenz.channels import Broadcast

    n, rounds, kind, tree = spec["n"], spec["rounds"], spec["kind"], spec["tree"]
    chans = [Broadcast(name=f"in{tag}{i}") for i in range(n)]
    rxs = [c.new_receiver(limit=50) for c in chans]
    txs = [c.new_sender() for c in chans]
    if kind == "flat":
        built = fc.build_flat(tree, rxs, spec["leaf_naz"])
    else:
        built = fc.build_composed(tree, rxs, spec["leaf_naz"], spec["top_naz"], spec.get("build_twice", False))
    out: list[tuple[int, float | None]] = []
    rx_out = built.engine.new_receiver(max_size=2000)

    async def rd() -> None:
        async for s in rx_out:
            out.append((fc.ts_index(sim, s.timestamp), fc.out_value(s)))

    reader = sim.spawn(rd())
    await asyncio.sleep(0.01)
    for k in range(rounds):
        order = schedule[k] if schedule else list(range(n))
        for i in order:
            if k < spec["starts"][i]:
                continue
            await txs[i].send(fc.make_sample(sim, k, table[i][k], i))
            if schedule and sim.ch.chance("yield", 0.3):
                await asyncio.sleep(0)
        await asyncio.sleep(0.2)
    await asyncio.sleep(2.0)
    reader.cancel()
    await fc.stop_all(built)
    return out


def scenario(sim: Sim) -> None:
    ch = sim.ch
    kind = ["flat", "composed"][ch.weighted("kind", [2, 3])]
    n0 = ch.int_between("nstreams", 1, 5)
    used: list[int] = []
    tree = fc.gen_tree(ch, n0, ch.int_between("depth", 1, sim.scale(3, 4)), allow_sub=(kind == "composed"), allow_div=True, used=used)
    from props.c06 import _remap

    remap = {s: j for j, s in enumerate(sorted(set(used)))}
    tree = _remap(tree, remap)
    n = len(remap)
    leaf_naz = [bool(ch.draw("leaf_naz", 2)) for _ in range(n)]
    top_naz = bool(ch.draw("top_naz", 2)) if kind == "composed" else False
    if tree[0] in ("leaf", "sub"):
        top_naz = False  # the engine is used directly, no top-level build() is involved
    rounds = ch.int_between("rounds", 4, sim.scale(25, 60))
    divisors = _divisor_leaves(tree)
    rate = ch.choice("corrupt_rate", [3, 1, 6])
    huge = ch.choice("huge_rate", [0, 0, 2, 6])
    kinds: list[list[str]] = []
    for i in range(n):
        row = []
        for k in range(rounds):
            # "huge" = finite values near the float limit: sums/products of them overflow, so the *result* is not
            # finite although every input is (-> None expected, whatever the expression computes otherwise)
            # "tiny" = a valid divisor very close to, but not, zero: the quotient is defined and finite
            w = [20, rate, rate // 2 + 1, 1, 1, (rate if i in divisors else 0), huge, huge, (2 if i in divisors else 0)]
            c = CORRUPT[ch.weighted("corrupt", w)]
            if c != "ok":
                sim.fault("input_" + c)
                sim.ev("corrupt", f"{i}:{c}", k)
            row.append(c)
        kinds.append(row)
    starts = [0] * n
    if n > 1 and ch.chance("staggered_starts", 0.3):
        starts = [min(ch.choice("start", [0, 0, 1, 2, 4]), rounds - 3) for _ in range(n)]
        if len(set(starts)) > 1:
            sim.probe("staggered_starts")
    tstar = max(starts)
    spec = dict(n=n, rounds=rounds, kind=kind, tree=tree, leaf_naz=leaf_naz, top_naz=top_naz, starts=starts,
                build_twice=kind == "composed" and ch.chance("builders_built_twice", 0.25))
    if spec["build_twice"]:
        sim.probe("builder_built_twice_with_other_setting")
    sim.config.update(kind=kind, formula=fc.tree_str(tree), leaf_naz=leaf_naz, top_naz=top_naz, rounds=rounds)
    sim.ev("formula", fc.tree_str(tree), kind, leaf_naz, top_naz)
    sim.note(f"formula {fc.tree_str(tree)} kind={kind} leaf_naz={leaf_naz} top_naz={top_naz}")
    table = [[_corrupt_value(kinds[i][k], fc.val(i, k)) for k in range(rounds)] for i in range(n)]
    table0 = [[(0.0 if (leaf_naz[i] and kinds[i][k] in ("none", "nan", "+inf", "-inf")) else table[i][k])
               for k in range(rounds)] for i in range(n)]
    schedule = [ch.shuffle("order", list(range(n))) if ch.chance("perm", 0.3) else list(range(n)) for _ in range(rounds)]
    fc.draw_stream_offsets(sim, list(range(n)))
    cost = ch.weighted("cost_mode", [3, 1])
    sim.set_cost_mode(cost)

    async def main() -> None:
        got = await _run_formula(sim, spec, table, "A", schedule)
        sim.order_choices = False
        got0 = await _run_formula(sim, spec, table0, "Z", None)
        sim.order_choices = True
        sigbase = {"builder": kind}
        # ---- (a) one sample per timestamp
        got_ts = [k for k, _ in got]
        expects = []
        for k in range(rounds):
            e = Expect(sim, [kinds[i][k] for i in range(n)], leaf_naz, kind == "composed")
            m, _ = e.node(tree, top_naz)
            expects.append((m, e.reasons))
        if got_ts != list(range(tstar, rounds)):
            missing_ts = [k for k in range(tstar, rounds) if k not in got_ts]
            extra = [k for k in got_ts if got_ts.count(k) > 1]
            cause = "other"
            if missing_ts and all("/:zero_divisor" in expects[k][1] for k in missing_ts) and not extra:
                cause = "division_by_zero"
            for k in missing_ts[:1]:
                sim.note(f"round {k}: inputs {[(i, kinds[i][k]) for i in range(n)]} -> no sample emitted")
            sim.soft_violation("sample_per_timestamp", dict(sigbase, cause=cause),
                               f"no sample for timestamps {missing_ts[:8]}, duplicated {extra[:8]}; emitted {got_ts[:12]}..")
        # ---- (b) None iff
        byts = dict(got)
        # ---- (d) an emitted value is always finite (overflow of finite inputs is "not finite" -> None)
        for k, v in got:
            if v is not None and (math.isinf(v) or math.isnan(v)):
                sim.probe("non_finite_result")
                sim.soft_violation("finite_or_none", sigbase,
                                   f"T={k}: the formula emitted the non-finite value {v} (inputs "
                                   f"{[(i, kinds[i][k]) for i in range(n) if kinds[i][k] != 'ok']}); expected None")
        for k in range(tstar, rounds):
            if k not in byts:
                continue
            if any(kinds[i][k].startswith("huge") for i in range(n)):
                # finite inputs near the float limit: whether the *result* is finite is decided by evaluating the
                # expression in IEEE doubles (only finiteness is used, never the value: that would be C05)
                fv = _float_value(tree, [table[i][k] for i in range(n)], leaf_naz, kind == "composed", top_naz)
                want_none = math.isnan(fv) or math.isinf(fv)
                if byts[k] is None:
                    sim.probe("overflow_to_none")
                if want_none != (byts[k] is None):
                    sim.soft_violation("none_iff_missing", dict(sigbase, direction="none_instead_of_value" if byts[k] is None
                                                                else "value_instead_of_none", inputs="near_float_limit"),
                                       f"T={k}: inputs {[(i, kinds[i][k]) for i in range(n) if kinds[i][k] != 'ok']}: the "
                                       f"expression evaluates to {fv} in IEEE doubles, the formula emitted {byts[k]}")
                continue
            m, reasons = expects[k]
            is_none = byts[k] is None
            if m and not is_none:
                r = sorted(set(reasons))[0] if reasons else "?"
                sim.note(f"round {k}: inputs {[(i, kinds[i][k]) for i in range(n)]} -> {byts[k]}")
                sim.soft_violation("none_iff_missing", dict(sigbase, direction="value_instead_of_none"),
                                   f"T={k}: inputs {[(i, kinds[i][k]) for i in range(n) if kinds[i][k] != 'ok']} are "
                                   f"missing/zero-divisor ({sorted(set(reasons))}) but the formula emitted {byts[k]}")
            elif not m and is_none:
                sim.note(f"round {k}: inputs {[(i, kinds[i][k]) for i in range(n)]} -> None")
                sim.soft_violation("none_iff_missing", dict(sigbase, direction="none_instead_of_value"),
                                   f"T={k}: no needed input is missing (corruptions: "
                                   f"{[(i, kinds[i][k]) for i in range(n) if kinds[i][k] != 'ok']}) but the formula emitted None")
        # ---- (c) zero equivalence
        by0 = dict(got0)
        for k in range(rounds):
            if k in byts and k in by0 and not fc.same_value(byts[k], by0[k]):
                sim.soft_violation("zero_equivalence", sigbase,
                                   f"T={k}: with missing values on nones_are_zeros streams the output is {byts[k]}, "
                                   f"with explicit 0.0 instead it is {by0[k]}")
        if [k for k, _ in got0] != got_ts:
            sim.soft_violation("zero_equivalence", dict(sigbase, what="timestamps"),
                               f"emitted timestamps differ: {got_ts[:10]} vs {[k for k, _ in got0][:10]}")

    sim.run(main())


def _divisor_leaves(t: Any) -> set[int]:
    k = t[0]
    if k in ("leaf", "const_f", "const_q"):
        return set()
    if k == "un":
        return _divisor_leaves(t[2])
    if k == "sub":
        return _divisor_leaves(t[1])
    s = _divisor_leaves(t[2]) | _divisor_leaves(t[3])
    if t[1] == "/" and t[3][0] == "leaf":
        s.add(t[3][1])
    return s


# --------------------------------------------------------------------------- in-process mutants
def _mut_missing_always_zero() -> Any:
    from frequenz.sdk.timeseries.formula_engine import _formula_steps as fs

    orig = fs.MetricFetcher.apply

    def apply(self: Any, eval_stack: list[float]) -> None:
        v = self._next_value.value
        if v is None or v.isnan() or v.isinf():
            eval_stack.append(0.0)
        else:
            eval_stack.append(v.base_value)

    fs.MetricFetcher.apply = apply  # type: ignore[method-assign]
    return lambda: setattr(fs.MetricFetcher, "apply", orig)


def _mut_inf_is_valid() -> Any:
    from frequenz.sdk.timeseries.formula_engine import _formula_steps as fs

    orig = fs.MetricFetcher.apply

    def apply(self: Any, eval_stack: list[float]) -> None:
        v = self._next_value.value
        if v is None or v.isnan():
            eval_stack.append(0.0 if self._nones_are_zeros else math.nan)
        else:
            eval_stack.append(v.base_value)

    fs.MetricFetcher.apply = apply  # type: ignore[method-assign]
    return lambda: setattr(fs.MetricFetcher, "apply", orig)


def _mut_naz_ignored_in_build() -> Any:
    from frequenz.sdk.timeseries.formula_engine import _formula_engine as fe

    orig = fe.HigherOrderFormulaBuilder.build

    def build(self: Any, name: str, *, nones_are_zeros: bool = False) -> Any:
        return orig(self, name, nones_are_zeros=False)

    fe.HigherOrderFormulaBuilder.build = build  # type: ignore[method-assign]
    return lambda: setattr(fe.HigherOrderFormulaBuilder, "build", orig)


MUTANTS = {"missing_always_zero": _mut_missing_always_zero, "inf_is_valid": _mut_inf_is_valid,
           "naz_ignored_in_build": _mut_naz_ignored_in_build}
