"""C10 - actors restart after failures, only after failures, and stop cleanly.

Real: Actor.start/_run_loop/_delay_if_restart, BackgroundService.cancel/stop/wait/__await__/
__aenter__/__aexit__, run(), cancel_and_await.  Probe: an Actor subclass whose `_run` follows a
per-invocation script of await points ending in return / raise Exception / raise a BaseException
subclass / wait forever, and which reacts to cancellation by re-raising, delaying then re-raising, or
converting it into an Exception.  A controller issues start / stop / cancel / wait / await / run()
/ "add an extra task" at drawn instants - before start, during a run, during the restart delay, after
completion, repeatedly and concurrently.
"""

from __future__ import annotations

import asyncio
from datetime import timedelta
from typing import Any

from sim.env import Sim
from sim.loop import SimDeadlock

ID = "C10"
REAL = ["Actor.start / _run_loop / _delay_if_restart", "BackgroundService.cancel / stop / wait / __await__ / __aenter__ / __aexit__",
        "run()", "cancel_and_await"]
STUB = ["probe actor _run (scripted await points and outcomes)", "controller task"]
RULE = ("one run = 1-2 probe actors with drawn restart limit {0,1,3,None}, restart delay {0, 10 ms, 2 s}, a script per "
        "invocation (0-4 await points; outcome return / Exception / BaseException / forever; reaction to cancellation) and a "
        "controller issuing 3-14 operations at drawn instants (incl. aimed into the restart delay and at the probe's await "
        "points); non-trivial = a failure or a stop/cancel happened while something was in flight; distinct = abstract digest "
        "of enter/exit/controller-op sequence; model states = (running, in_restart_delay, last outcome) visited"
        " Also: up to 3 actors, optionally constructed with equal names; `async with` left normally or because the"
        " body raised."
        " A waiter may give up (its wait()/await is cancelled); a run cancelled although nobody stopped or"
        " cancelled the actor, and a deadlock of a controller call, are violations; errors of tasks that ended"
        " unnoticed must still be surfaced.")
QUICK_RUNS = 6000
THOROUGH_RUNS = 400_000
EXPECT_PROBES = ["stop_during_restart_delay", "stop_during_run", "stop_before_start", "stop_after_completion",
                 "restart_limit_reached", "base_exception_outcome", "cancel_converted_to_exception", "extra_task_added",
                 "run_utils_used", "start_while_running", "concurrent_stops", "extra_task_failed",
                 "actors_with_equal_names", "aexit_after_body_raised", "waiter_gave_up"]


class ProbeBase(BaseException):
    """A BaseException that is not an Exception (and not CancelledError)."""


class Rec:
    def __init__(self, sim: Sim, name: str) -> None:
        self.sim = sim
        self.name = name                              # the harness' key for this actor
        self.actor_name = name                        # what the actor is constructed with (need not be unique)
        self.invocations: list[dict[str, Any]] = []   # {k, t_enter, t_exit, how}
        self.active = 0
        self.starts: list[int] = []                   # evno of effective start() calls
        self.cancel_requested_since_enter = False
        self.generation = 0                           # incremented by every effective start()
        self.unspecified = False                      # a cancellation was converted into an Exception
        self.stop_requested_gen = -1                  # generation for which the controller asked for stop/cancel
        self.stops_in_flight = 0                      # stop()/__aexit__ calls of the controller that have not returned yet
        self.judging = True                           # False once the scenario is over (teardown cancels everything)
        self.seen: dict[int, Any] = {}                # tasks of the current start ever seen in the service's task set
        self.collected: set[int] = set()              # ... whose outcome a returned stop()/wait()/run() has collected


def make_probe_class() -> Any:
    from frequenz.sdk.actor import Actor

    class Probe(Actor):
        def __init__(self, sim: Sim, rec: Rec, scripts: list[dict[str, Any]]) -> None:
            super().__init__(name=rec.actor_name)
            self.sim = sim
            self.rec = rec
            self.scripts = scripts
            self.release = asyncio.Event()

        async def _run(self) -> None:
            sim, rec = self.sim, self.rec
            k = len(rec.invocations)
            script = self.scripts[k] if k < len(self.scripts) else {"steps": [], "outcome": "forever", "on_cancel": "reraise"}
            inv = {"k": k, "t_enter": sim.now_us, "t_exit": None, "how": None, "gen": rec.generation}
            rec.invocations.append(inv)
            rec.active += 1
            sim.ev("enter", rec.name, k)
            if rec.active > 1:
                sim.violation("single_run", {"what": "two invocations of _run active at once"},
                              f"actor {rec.name}: invocation {k} entered while another one is active")
            how = "?"
            try:
                try:
                    for st in script["steps"]:
                        if st[0] == "sleep":
                            await asyncio.sleep(st[1] / 1e6)
                        elif st[0] == "yield":
                            await asyncio.sleep(0)
                        else:
                            await self.release.wait()
                    oc = script["outcome"]
                    if oc == "raise":
                        how = "exception"
                        raise RuntimeError(f"probe failure {k}")
                    if oc == "base":
                        how = "base"
                        sim.probe("base_exception_outcome")
                        raise ProbeBase(f"probe base exception {k}")
                    if oc == "forever":
                        await asyncio.Event().wait()
                    how = "return"
                except asyncio.CancelledError:
                    oc2 = script["on_cancel"]
                    if oc2 == "delay_reraise":
                        how = "cancelled"
                        try:
                            await asyncio.sleep(0.005)
                        except asyncio.CancelledError:
                            pass
                        raise
                    if oc2 == "convert":
                        how = "converted"
                        rec.unspecified = True
                        sim.probe("cancel_converted_to_exception")
                        raise RuntimeError("cancellation converted into an exception")  # pylint: disable=raise-missing-from
                    how = "cancelled"
                    raise
            finally:
                rec.active -= 1
                inv["t_exit"] = sim.now_us
                inv["how"] = how
                sim.ev("exit", rec.name, k, how)
                sim.model_states.add((how, k > 0))
                if how in ("cancelled", "converted") and rec.judging and rec.stop_requested_gen != inv["gen"] \
                        and not rec.stops_in_flight:
                    # nobody called stop()/cancel()/left the async-with block for this start of the actor: something
                    # else (e.g. a caller that gave up waiting) took the run logic down
                    sim.soft_violation("restart_after_failure", {"what": "run logic cancelled although nobody stopped or cancelled the actor"},
                                       f"actor {rec.name}: invocation {k} was cancelled at t={sim.now_us} us without a "
                                       f"stop()/cancel() request")

    return Probe


def scenario(sim: Sim) -> None:
    from frequenz.sdk.actor import run as run_actors

    ch = sim.ch
    Probe = make_probe_class()
    delay_us = ch.choice("restart_delay_us", [2_000_000, 0, 10_000])
    limit = ch.choice("restart_limit", [None, 0, 1, 3])
    Probe.RESTART_DELAY = timedelta(microseconds=delay_us)
    Probe._restart_limit = limit
    nact = 1 + ch.weighted("nactors", [3, 1, 1])
    sim.set_cost_mode(ch.weighted("cost_mode", [3, 1]))
    slack = 0 if sim.loop.cost_mode == 0 else 5_000
    recs: list[Rec] = []
    actors: list[Any] = []
    for a in range(nact):
        scripts = []
        for _ in range(ch.int_between("ninv", 1, 6)):
            steps = []
            for _s in range(ch.int_between("nsteps", 0, 4)):
                sk = ch.weighted("step", [4, 2, 1])
                steps.append(("sleep", ch.choice("step_us", [1_000, 100_000, 700_000, 3_000_000])) if sk == 0
                             else (("yield",) if sk == 1 else ("event",)))
            scripts.append({"steps": steps, "outcome": ["raise", "return", "base", "forever"][ch.weighted("outcome", [5, 2, 1, 2])],
                            "on_cancel": ["reraise", "delay_reraise", "convert"][ch.weighted("on_cancel", [6, 2, 1])]})
        rec = Rec(sim, f"p{a}")
        recs.append(rec)
        actors.append((rec, scripts))
    if nact > 1 and ch.chance("same_actor_name", 0.3):
        # names are labels, not identities: several actors of one class constructed with the same name
        for r in recs:
            r.actor_name = "p"
        sim.probe("actors_with_equal_names")
    sim.config.update(delay_us=delay_us, limit=limit, nact=nact,
                      scripts=[[(s["outcome"], len(s["steps"]), s["on_cancel"]) for s in sc] for _, sc in actors])
    sim.note(f"restart_delay={delay_us}us limit={limit} scripts={sim.config['scripts']}")

    pending_ops: list[dict[str, Any]] = []     # stop()/wait()/run() calls in flight
    extra_tasks: dict[str, list[Any]] = {r.name: [] for r in recs}

    def in_restart_delay(rec: Rec) -> bool:
        if not rec.invocations or rec.active:
            return False
        last = rec.invocations[-1]
        return last["how"] in ("exception", "converted") and last["t_exit"] is not None and \
            sim.now_us < last["t_exit"] + delay_us

    async def main() -> None:
        objs = [Probe(sim, rec, scripts) for rec, scripts in actors]
        ctl_interference: dict[str, int] = {r.name: -1 for r in recs}   # evno of last cancel/stop per actor

        def effective_start(i: int) -> None:
            o, rec = objs[i], recs[i]
            was_running = o.is_running
            ntasks = len(o._tasks)
            ninv = len(rec.invocations)
            o.start()
            sim.ev("start", rec.name, was_running)
            if was_running:
                sim.probe("start_while_running")
                if len(o._tasks) != ntasks or len(rec.invocations) != ninv:
                    sim.violation("start_idempotent", {"what": "start() on a running actor created something"},
                                  f"actor {rec.name}: tasks {ntasks} -> {len(o._tasks)}")
            else:
                rec.generation += 1
                rec.starts.append(sim.evno)
                extra_tasks[rec.name] = []
                rec.seen = {id(t): t for t in set.__iter__(o._tasks)}
                rec.collected = set()

        async def do_stop(i: int, kind: str) -> None:
            o, rec = objs[i], recs[i]
            at_call = list(set.__iter__(o._tasks))
            for t in at_call:
                rec.seen[id(t)] = t
            # tasks of this start that already ended and whose outcome no returned stop()/wait()/run() has collected
            # yet: they are the service's tasks all the same, whether or not it still lists them
            died_unnoticed = [t for t in rec.seen.values() if id(t) not in rec.collected and t.done() and t not in at_call]
            if any(not p_["done"] and rec.name in p_["actor"].split(",") for p_ in pending_ops):
                died_unnoticed = []     # a wait()/run()/stop() already in flight may have collected them: unknown
            if died_unnoticed:
                sim.probe("stop_after_unnoticed_death")
            op = {"kind": kind, "actor": rec.name, "t_call": sim.now_us, "ev_call": sim.evno, "done": False,
                  "gen": rec.generation, "unspecified": rec.unspecified}
            pending_ops.append(op)
            if not at_call:
                sim.probe("stop_before_start" if not rec.invocations else "stop_after_completion")
            elif in_restart_delay(rec):
                sim.probe("stop_during_restart_delay")
                sim.nontrivial = True
            elif rec.active:
                sim.probe("stop_during_run")
                sim.nontrivial = True
            if sum(1 for p in pending_ops if p["actor"] == rec.name and p["kind"] == "stop" and not p["done"]) > 1:
                sim.probe("concurrent_stops")
            ctl_interference[rec.name] = sim.evno
            if kind in ("stop", "aexit", "aexit_exc"):
                rec.stop_requested_gen = rec.generation
                rec.stops_in_flight += 1        # (a stop in progress may also take down a run started meanwhile)
            raised: BaseException | None = None
            try:
                if kind == "stop":
                    await o.stop("stop by controller")
                elif kind == "aexit":
                    await o.__aexit__(None, None, None)
                elif kind == "aexit_exc":
                    # the `async with` block is left because its body raised: the service is stopped all the same
                    body_exc = RuntimeError("body of the async-with block failed")
                    await o.__aexit__(RuntimeError, body_exc, None)
                elif kind == "wait":
                    await o.wait()
                else:
                    await o
            except asyncio.CancelledError:
                raise
            except BaseException as e:  # pylint: disable=broad-except
                raised = e
            finally:
                if kind in ("stop", "aexit", "aexit_exc"):
                    rec.stops_in_flight -= 1
            op["done"] = True
            op["t_ret"] = sim.now_us
            # (whatever it was called for, a call that returns has drained the service's task set: every task of the
            # actor that is done by now has been collected by it or by an earlier call)
            rec.collected.update(k_ for k_, t in rec.seen.items() if t.done())
            sim.ev(kind + "_returned", rec.name, type(raised).__name__ if raised else "None")
            # ---- I4: returns only when every task present at call time is done
            notdone = [t for t in at_call if not t.done()]
            if notdone:
                sim.violation("stop_waits_for_tasks", {"op": kind, "what": "returned while a task is still running"},
                              f"{kind}() of {rec.name} returned at t={sim.now_us} us with {len(notdone)} of "
                              f"{len(at_call)} tasks (present at call time) not finished")
            if kind in ("stop", "aexit", "aexit_exc"):
                want = []
                for t in at_call + died_unnoticed:
                    if t.cancelled():
                        continue
                    e = t.exception()
                    if e is not None and not isinstance(e, asyncio.CancelledError):
                        want.append(e)
                got = list(raised.exceptions) if isinstance(raised, BaseExceptionGroup) else ([] if raised is None else [raised])
                got_non_cancel = [e for e in got if not isinstance(e, asyncio.CancelledError)]
                # errors of tasks added after the call (e.g. by a start() racing with this stop()) may legitimately
                # show up as well; what is promised is that the errors of the tasks being stopped are surfaced
                if not set(map(id, want)) <= set(map(id, got_non_cancel)):
                    sim.violation("stop_surfaces_errors", {"op": kind},
                                  f"{kind}() of {rec.name}: tasks ended with errors {[repr(e) for e in want]} but it "
                                  f"raised {raised!r} containing {[repr(e) for e in got]}")
                if any(isinstance(e, asyncio.CancelledError) for e in got):
                    sim.violation("stop_surfaces_errors", {"op": kind, "what": "CancelledError surfaced"},
                                  f"{kind}() of {rec.name} raised {raised!r}")
                if rec.active and rec.invocations[-1]["gen"] == op["gen"] and not rec.unspecified:
                    sim.violation("stop_waits_for_tasks", {"op": kind, "what": "run logic still active"},
                                  f"{kind}() of {rec.name} returned while invocation {rec.invocations[-1]['k']} is active")

        async def do_run(idx: list[int]) -> None:
            sim.probe("run_utils_used")
            for i in idx:
                if not objs[i].is_running:
                    recs[i].generation += 1
                    recs[i].starts.append(sim.evno)
                    extra_tasks[recs[i].name] = []
                    recs[i].seen = {}
                    recs[i].collected = set()
            op = {"kind": "run", "actor": ",".join(recs[i].name for i in idx), "t_call": sim.now_us, "done": False}
            gens = {i: recs[i].generation for i in idx}
            pending_ops.append(op)
            await run_actors(*[objs[i] for i in idx])
            for i in idx:
                recs[i].collected.update(k for k, t in recs[i].seen.items() if t.done())
            op["done"] = True
            op["t_ret"] = sim.now_us
            sim.ev("run_returned", op["actor"])
            for i in idx:
                # "finished" = the actor's own run loop is over (extra tasks the controller adds to a cancelled
                # actor afterwards are not the actor running)
                if recs[i].generation != gens[i]:
                    continue   # the controller started the actor again after the awaited run had finished
                if recs[i].active or run_loop_alive(objs[i]):
                    sim.violation("run_returns_when_all_done", {"what": "returned while an actor is still running"},
                                  f"run() returned at t={sim.now_us} us but actor {recs[i].name} is still running")

        def on_idle() -> None:
            for i, rec in enumerate(recs):
                for t in set.__iter__(objs[i]._tasks):
                    rec.seen[id(t)] = t
                sim.model_states.add((objs[i].is_running, in_restart_delay(rec), rec.invocations[-1]["how"] if rec.invocations else None))
                _check_restarts(sim, rec, delay_us, limit, slack, ctl_interference[rec.name], objs[i])
            for op in pending_ops:
                if op["kind"] == "run" and not op["done"]:
                    idx = [j for j, r in enumerate(recs) if r.name in op["actor"].split(",")]
                    if all(not run_loop_alive(objs[j]) and not any(not t.done() for t in set.__iter__(objs[j]._tasks))
                           for j in idx) and not any(recs[j].unspecified for j in idx):
                        op.setdefault("all_done_at", sim.now_us)
                        if sim.now_us > op["all_done_at"] + slack + 1:
                            sim.violation("run_returns_when_all_done", {"what": "did not return although all actors finished"},
                                          f"run({op['actor']}) still pending at t={sim.now_us} us; all finished at {op['all_done_at']}")

        sim.loop.idle_hooks.append(on_idle)
        ctl_tasks: list[Any] = []
        ctl_kinds: list[str] = []
        last_kind = ["other"]
        nops = ch.int_between("nops", 3, sim.scale(14, 30))
        for _ in range(nops):
            i = ch.draw("op_actor", nact)
            o, rec = objs[i], recs[i]
            # ---- when: a plain gap, or aimed at the restart delay / an await point of the running invocation
            wk = ch.weighted("when", [5, 3, 2])
            if wk == 1 and in_restart_delay(rec):
                last = rec.invocations[-1]
                frac = ch.choice("delay_frac", [0.5, 0.0, 1.0, 0.01, 0.99])
                target = last["t_exit"] + int(delay_us * frac) + ch.draw("pm", 3) - 1
                if target > sim.now_us:
                    await _until(sim, target)
            elif wk == 2:
                await asyncio.sleep(0)
            else:
                await asyncio.sleep(ch.choice("gap_us", [1_000, 50_000, 500_000, 2_000_000, 5_000_000, 0]) / 1e6)
            ok = ch.weighted("op", [6, 4, 2, 2, 1, 1, 2, 1, 1, 1])
            last_kind[0] = {3: "wait", 4: "await"}.get(ok, "other")
            if ok == 0:
                effective_start(i)
            elif ok == 1:
                ctl_tasks.append(sim.spawn(do_stop(i, "stop")))
            elif ok == 2:
                ctl_interference[rec.name] = sim.evno
                rec.stop_requested_gen = rec.generation
                sim.ev("cancel", rec.name)
                o.cancel("cancel by controller")
                if rec.active or in_restart_delay(rec):
                    sim.nontrivial = True
            elif ok == 3:
                ctl_tasks.append(sim.spawn(do_stop(i, "wait")))
            elif ok == 4:
                ctl_tasks.append(sim.spawn(do_stop(i, "await")))
            elif ok == 5:
                if ch.chance("body_raised", 0.4):
                    sim.probe("aexit_after_body_raised")
                    ctl_tasks.append(sim.spawn(do_stop(i, "aexit_exc")))
                else:
                    ctl_tasks.append(sim.spawn(do_stop(i, "aexit")))
            elif ok == 6:
                o.release.set()
                o.release = asyncio.Event()
                sim.ev("release", rec.name)
            elif ok == 7:
                if o.is_running:
                    sim.probe("extra_task_added")
                    fails = ch.chance("extra_fails", 0.4)

                    async def extra(fails: bool = fails) -> None:
                        await asyncio.sleep(0.3)
                        if fails:
                            sim.probe("extra_task_failed")
                            raise ValueError("extra task failed")
                        await asyncio.sleep(1000)

                    t = sim.spawn(extra())
                    o._tasks.add(t)
                    extra_tasks[rec.name].append(t)
                    sim.ev("extra_task", rec.name, fails)
            elif ok == 9:
                # a caller that was waiting for the actor gives up (its wait()/await is cancelled, as by a timeout):
                # that is the caller's business and must leave the actor alone
                waiting = [t for t, p in zip(ctl_tasks, ctl_kinds) if p in ("wait", "await") and not t.done()]
                if waiting:
                    waiting[ch.draw("which_waiter", len(waiting))].cancel()
                    sim.probe("waiter_gave_up")
                    sim.ev("waiter_cancelled", rec.name)
            else:
                idx = sorted({i, ch.draw("run_other", nact)})
                ctl_tasks.append(sim.spawn(do_run(idx)))
            while len(ctl_kinds) < len(ctl_tasks):
                ctl_kinds.append(last_kind[0])
        await asyncio.sleep(ch.choice("tail_s", [0.5, 3.0, 8.0]))
        # calm down: release everything and stop all actors; every pending stop must now return
        for o in objs:
            o.release.set()
        sim.loop.idle_hooks.remove(on_idle)
        for i, o in enumerate(objs):
            recs[i].stop_requested_gen = recs[i].generation
            if not recs[i].unspecified:
                try:
                    await asyncio.wait_for(o.stop(), timeout=30)
                except asyncio.TimeoutError:
                    if not recs[i].unspecified:
                        sim.violation("stop_returns", {"what": "final stop() did not return"}, recs[i].name)
                except BaseException:  # pylint: disable=broad-except
                    pass
        await asyncio.sleep(0.1)
        for op in pending_ops:
            if not op["done"] and op["kind"] in ("stop", "aexit", "aexit_exc") and not any(
                    r.unspecified for r in recs if r.name in op["actor"].split(",")):
                sim.violation("stop_returns", {"what": "stop() still pending after everything finished", "op": op["kind"]},
                              f"{op['kind']}({op['actor']}) called at {op['t_call']} us never returned")
        for r in recs:
            r.judging = False
        for t in ctl_tasks:
            t.cancel()
        for o in objs:
            o.cancel()

    try:
        sim.run(main())
    except SimDeadlock:
        # nothing can run any more although the scenario has not finished: some stop()/wait()/run() call of the
        # controller never returns
        stuck = [f"{p['kind']}({p['actor']})" for p in pending_ops if not p["done"]]
        for r in recs:
            r.judging = False
        sim.violation("stop_returns", {"what": "deadlock: a pending call never returns"},
                      f"nothing runnable, no timers; calls still pending: {stuck}")


def _check_restarts(sim: Sim, rec: Rec, delay_us: int, limit: int | None, slack: int, interfered_ev: int, obj: Any) -> None:
    """Restart policy over the recorded invocations (I2, I3)."""
    if rec.unspecified:
        return
    invs = rec.invocations
    for a, b in zip(invs, invs[1:]):
        if b.get("checked"):
            continue
        b["checked"] = True
        same_gen = a["gen"] == b["gen"]
        if same_gen:
            nrestarts = sum(1 for x in invs if x["gen"] == a["gen"] and x["k"] <= a["k"]) - 1
            if a["how"] not in ("exception",):
                sim.violation("restart_only_after_failure", {"after": str(a["how"])},
                              f"actor {rec.name}: invocation {b['k']} started after invocation {a['k']} ended by {a['how']} "
                              f"without a new start()")
            if limit is not None and nrestarts >= limit:
                sim.violation("restart_limit", {"limit": str(limit)},
                              f"actor {rec.name}: restart #{nrestarts + 1} although the limit is {limit}")
            if limit is not None and nrestarts + 1 == limit:
                sim.probe("restart_limit_reached")
            if b["t_enter"] < a["t_exit"] + delay_us:
                sim.violation("restart_delay", {"what": "restarted too early"},
                              f"actor {rec.name}: invocation {b['k']} at {b['t_enter']} us, previous ended {a['t_exit']} us, "
                              f"restart delay {delay_us} us")
        elif a["t_exit"] is None:
            sim.violation("single_run", {"what": "new start() while previous run active"}, rec.name)
    # liveness: a failed invocation is followed by a restart once the delay has passed, unless stop/cancel intervened
    if invs and not rec.active:
        last = invs[-1]
        if last["how"] == "exception" and last["t_exit"] is not None:
            nrestarts = sum(1 for x in invs if x["gen"] == last["gen"]) - 1
            allowed = limit is None or nrestarts < limit
            ev_exit = last.get("ev_exit")
            interfered = interfered_ev >= 0 and any(t[2] in ("cancel",) or t[2].endswith("_returned") or t[2] == "start"
                                                      for t in ())
            del ev_exit, interfered
            if allowed and sim.now_us > last["t_exit"] + delay_us + slack + 1 and run_loop_alive(obj):
                sim.violation("restart_after_failure", {"what": "not restarted after the delay"},
                              f"actor {rec.name}: invocation {last['k']} failed at {last['t_exit']} us, delay {delay_us} us, "
                              f"now {sim.now_us} us, still no new invocation although the actor task is alive")
            if not allowed and run_loop_alive(obj) and sim.now_us > last["t_exit"] + slack + 1:
                sim.violation("restart_limit", {"what": "run loop alive after the limit"}, rec.name)


def run_loop_alive(obj: Any) -> bool:
    return any(not t.done() for t in set.__iter__(obj._tasks) if getattr(t.get_coro(), "__name__", "") == "_run_loop")


async def _until(sim: Sim, when_us: int) -> None:
    fut: asyncio.Future[None] = sim.loop.create_future()
    sim.loop.at_abs(when_us, lambda: fut.done() or fut.set_result(None))
    await fut


# --------------------------------------------------------------------------- in-process mutants
def _mut_restart_after_return() -> Any:
    from frequenz.sdk.actor import _actor as am

    orig = am.Actor._run_loop

    async def loop(self: Any) -> None:
        n = 0
        while True:
            try:
                await self._delay_if_restart(n)
                await self._run()
                n += 1
                if n > 3:
                    break
                continue
            except asyncio.CancelledError:
                raise
            except Exception:  # pylint: disable=broad-except
                if self._restart_limit is None or n < self._restart_limit:
                    n += 1
                    continue
                raise
            break

    am.Actor._run_loop = loop  # type: ignore[method-assign]
    return lambda: setattr(am.Actor, "_run_loop", orig)


def _mut_stop_does_not_wait() -> Any:
    from frequenz.sdk.actor import _background_service as bs

    orig = bs.BackgroundService.stop

    async def stop(self: Any, msg: str | None = None) -> None:
        if not self._tasks:
            return
        self.cancel(msg)
        await asyncio.sleep(0)

    bs.BackgroundService.stop = stop  # type: ignore[method-assign]
    return lambda: setattr(bs.BackgroundService, "stop", orig)


def _mut_no_restart_delay() -> Any:
    from frequenz.sdk.actor import _actor as am

    orig = am.Actor._delay_if_restart

    async def d(self: Any, iteration: int) -> None:
        if iteration > 1:
            await asyncio.sleep(self.RESTART_DELAY.total_seconds())

    am.Actor._delay_if_restart = d  # type: ignore[method-assign]
    return lambda: setattr(am.Actor, "_delay_if_restart", orig)


def _mut_limit_off_by_one() -> Any:
    from frequenz.sdk.actor import _actor as am

    orig = am.Actor._run_loop

    async def loop(self: Any) -> None:
        n = 0
        while True:
            try:
                await self._delay_if_restart(n)
                await self._run()
            except asyncio.CancelledError:
                raise
            except Exception:  # pylint: disable=broad-except
                if self._restart_limit is None or n <= self._restart_limit:
                    n += 1
                    continue
                raise
            break

    am.Actor._run_loop = loop  # type: ignore[method-assign]
    return lambda: setattr(am.Actor, "_run_loop", orig)


def _mut_stop_swallows_errors() -> Any:
    from frequenz.sdk.actor import _background_service as bs

    orig = bs.BackgroundService.stop

    async def stop(self: Any, msg: str | None = None) -> None:
        try:
            await orig(self, msg)
        except BaseExceptionGroup:
            pass

    bs.BackgroundService.stop = stop  # type: ignore[method-assign]
    return lambda: setattr(bs.BackgroundService, "stop", orig)


def _mut_start_not_idempotent() -> Any:
    from frequenz.sdk.actor import _actor as am

    orig = am.Actor.start

    def start(self: Any) -> None:
        self._tasks.add(asyncio.create_task(self._run_loop()))

    am.Actor.start = start  # type: ignore[method-assign]
    return lambda: setattr(am.Actor, "start", orig)


def _mut_run_returns_on_first() -> Any:
    from frequenz.sdk.actor import _run_utils as ru

    orig = ru.run

    async def run(*actors: Any) -> None:
        for a in actors:
            if not a.is_running:
                a.start()
        pending = {asyncio.create_task(a.wait(), name=str(a)) for a in actors}
        await asyncio.wait(pending, return_when=asyncio.FIRST_COMPLETED)

    import frequenz.sdk.actor as pkg

    ru.run = run  # type: ignore[assignment]
    orig_pkg = pkg.run
    pkg.run = run  # type: ignore[assignment]

    def undo() -> None:
        ru.run = orig  # type: ignore[assignment]
        pkg.run = orig_pkg  # type: ignore[assignment]

    return undo


MUTANTS = {"restart_after_return": _mut_restart_after_return, "stop_does_not_wait": _mut_stop_does_not_wait,
           "no_restart_delay_first_time": _mut_no_restart_delay, "limit_off_by_one": _mut_limit_off_by_one,
           "stop_swallows_errors": _mut_stop_swallows_errors, "start_not_idempotent": _mut_start_not_idempotent,
           "run_returns_on_first": _mut_run_returns_on_first}
