"""Shared harness for the formula-engine properties (C06, C13).

The harness plays the resampling actor: it owns n input channels on one timestamp grid and decides,
event by event, which stream delivers its next sample and when.  The formula itself (flat
FormulaBuilder, composition API with sub-engines, 3-phase) runs real.
"""

from __future__ import annotations

import asyncio
import math
from datetime import timedelta, timezone
from typing import Any

from sim.env import Sim

BIN_OPS = ["+", "-", "*", "/", "max", "min"]
UN_OPS = ["consumption", "production"]


# ------------------------------------------------------------------ expression trees
def gen_tree(ch: Any, n: int, depth: int, *, allow_sub: bool, allow_div: bool, used: list[int]) -> Any:
    """Random expression tree over streams 0..n-1.  Divisors are atoms (a leaf or a constant)."""
    if depth <= 0 or ch.chance("leafnow", 0.25):
        i = ch.draw("leaf", n)
        used.append(i)
        return ("leaf", i)
    kind = ch.weighted("nodekind", [6, 2, 1 if allow_sub else 0])
    if kind == 1:
        op = ch.choice("unop", UN_OPS)
        return ("un", op, gen_tree(ch, n, depth - 1, allow_sub=allow_sub, allow_div=allow_div, used=used))
    if kind == 2:
        inner = gen_tree(ch, n, depth - 1, allow_sub=allow_sub, allow_div=allow_div, used=used)
        if inner[0] in ("leaf", "sub"):
            return inner
        return ("sub", inner, bool(ch.draw("sub_naz", 2)))
    op = ch.choice("binop", BIN_OPS if allow_div else [o for o in BIN_OPS if o != "/"])
    left = gen_tree(ch, n, depth - 1, allow_sub=allow_sub, allow_div=allow_div, used=used)
    if op in ("*", "/"):
        rk = ch.weighted("rhs_kind", [2, 2])  # leaf / float constant
        if rk == 0:
            i = ch.draw("leaf", n)
            used.append(i)
            right: Any = ("leaf", i)
        else:
            right = ("const_f", ch.choice("constf", [2.0, 0.5, -1.0, 3.0] + ([0.0] if op == "/" and
                                                                              ch.chance("zero_const", 0.15) else [])))
    else:
        rk = ch.weighted("rhs_kind2", [5, 1])
        if rk == 0:
            right = gen_tree(ch, n, depth - 1, allow_sub=allow_sub, allow_div=allow_div, used=used)
        else:
            right = ("const_q", ch.choice("constq", [0.0, 7.0, -13.0, 250.0]))
    return ("bin", op, left, right)


def tree_str(t: Any) -> str:
    k = t[0]
    if k == "leaf":
        return f"#{t[1]}"
    if k in ("const_f", "const_q"):
        return str(t[1])
    if k == "un":
        return f"{t[1]}({tree_str(t[2])})"
    if k == "sub":
        return f"[{tree_str(t[1])}]{'z' if t[2] else ''}"
    return f"({tree_str(t[2])} {t[1]} {tree_str(t[3])})"


def leaves_of(t: Any) -> list[int]:
    k = t[0]
    if k == "leaf":
        return [t[1]]
    if k in ("const_f", "const_q"):
        return []
    if k == "un":
        return leaves_of(t[2])
    if k == "sub":
        return leaves_of(t[1])
    return leaves_of(t[2]) + leaves_of(t[3])


# ------------------------------------------------------------------ building real engines
class Built:
    def __init__(self) -> None:
        self.engine: Any = None
        self.engines: list[Any] = []      # every engine created (for _stop)
        self.leaf_rx: list[Any] = []


def build_composed(tree: Any, rxs: list[Any], leaf_naz: list[bool], top_naz: bool, build_twice: bool = False) -> Built:
    """Build through the public composition API (engines as operands, sub-engines)."""
    from frequenz.quantities import Power
    from frequenz.sdk.timeseries.formula_engine._formula_engine import FormulaEngine

    b = Built()
    leaf_eng: dict[int, Any] = {}
    counter = [0]

    def leaf(i: int) -> Any:
        if i not in leaf_eng:
            leaf_eng[i] = FormulaEngine.from_receiver(f"s{i}", rxs[i], Power.from_watts,
                                                      nones_are_zeros=leaf_naz[i])
            b.engines.append(leaf_eng[i])
        return leaf_eng[i]

    def rec(t: Any) -> Any:
        k = t[0]
        if k == "leaf":
            return leaf(t[1])
        if k == "const_f":
            return float(t[1])
        if k == "const_q":
            return Power.from_watts(t[1])
        if k == "un":
            x = rec(t[2])
            return x.consumption() if t[1] == "consumption" else x.production()
        if k == "sub":
            x = rec(t[1])
            counter[0] += 1
            if build_twice:
                # the same builder object built before, under the same name, with the other setting: the engine asked
                # for now must still honour *its* setting
                b.engines.append(x.build(f"sub{counter[0]}", nones_are_zeros=not t[2]))
            e = x.build(f"sub{counter[0]}", nones_are_zeros=t[2])
            b.engines.append(e)
            return e
        op, l, r = t[1], rec(t[2]), rec(t[3])
        if op == "+":
            return l + r
        if op == "-":
            return l - r
        if op == "*":
            return l * r
        if op == "/":
            return l / r
        if op == "max":
            return l.max(r)
        return l.min(r)

    top = rec(tree)
    if isinstance(top, FormulaEngine):
        b.engine = top
    else:
        if build_twice:
            b.engines.append(top.build("top", nones_are_zeros=not top_naz))
        b.engine = top.build("top", nones_are_zeros=top_naz)
        b.engines.append(b.engine)
    return b


def build_flat(tree: Any, rxs: list[Any], leaf_naz: list[bool]) -> Built:
    """Build through FormulaBuilder push_* calls (fully parenthesised infix token stream)."""
    from frequenz.quantities import Power
    from frequenz.sdk.timeseries.formula_engine._formula_engine import FormulaBuilder

    fb: Any = FormulaBuilder("flat", Power.from_watts)

    def rec(t: Any) -> None:
        k = t[0]
        if k == "leaf":
            fb.push_metric(f"#{t[1]}", rxs[t[1]], nones_are_zeros=leaf_naz[t[1]])
        elif k in ("const_f", "const_q"):
            fb.push_constant(float(t[1]))
        elif k == "un":
            fb.push_oper("(")
            rec(t[2])
            fb.push_oper(")")
            fb.push_oper(t[1])
        elif k == "sub":
            rec(t[1])
        else:
            fb.push_oper("(")
            rec(t[2])
            fb.push_oper(")")
            fb.push_oper(t[1])
            if t[3][0] in ("leaf", "const_f", "const_q"):
                rec(t[3])
            else:
                fb.push_oper("(")
                rec(t[3])
                fb.push_oper(")")

    rec(tree)
    b = Built()
    b.engine = fb.build()
    b.engines.append(b.engine)
    return b


async def stop_all(b: Built) -> None:
    for e in reversed(b.engines):
        try:
            await e._stop()
        except BaseException:  # pylint: disable=broad-except
            pass


# ------------------------------------------------------------------ the streams
_OFFSETS = [None, timezone(timedelta(hours=2)), timezone(-timedelta(hours=7)), timezone(timedelta(hours=5, minutes=45))]


def draw_stream_offsets(sim: Sim, streams: list[Any]) -> None:
    """In a quarter of the runs every input stream stamps its samples in its own UTC offset (same instants)."""
    sim.stream_tz = {}  # type: ignore[attr-defined]
    if sim.ch.chance("streams_in_other_utc_offsets", 0.25):
        for st in streams:
            sim.stream_tz[st] = _OFFSETS[sim.ch.draw("stream_utc_offset", len(_OFFSETS))]  # type: ignore[attr-defined]
        sim.probe("input_stamped_in_other_utc_offset")


def grid_ts(sim: Sim, k: int, stream: Any = None) -> Any:
    ts = sim.epoch + timedelta(seconds=k)
    tz = getattr(sim, "stream_tz", {}).get(stream)
    return ts if tz is None else ts.astimezone(tz)


def ts_index(sim: Sim, ts: Any) -> int:
    return round((ts - sim.epoch).total_seconds())


def make_sample(sim: Sim, k: int, value: float | None, stream: Any = None) -> Any:
    from frequenz.quantities import Power
    from frequenz.sdk.timeseries import Sample

    return Sample(grid_ts(sim, k, stream), None if value is None else Power.from_watts(value))


def val(i: int, k: int) -> float:
    """Distinct finite value per (stream, timestamp), never zero, small enough to never overflow."""
    return float((i + 1) * 1000 + k * 7 + i) + 0.25


def out_value(s: Any) -> float | None:
    return None if s.value is None else s.value.base_value


def same_value(a: float | None, b: float | None) -> bool:
    if a is None or b is None:
        return a is None and b is None
    return a == b or (math.isclose(a, b, rel_tol=1e-12, abs_tol=1e-9))
