"""C09 - ring buffer / moving window behaves as a sliding time-indexed map.

The quantified object is the *update history*: a regular sample stream on the slot grid passed through
a fault-injecting transport (drop -> gaps, duplicate/overwrite, bounded and unbounded reordering ->
out-of-order and too-old, jump ahead by more than the capacity, None/NaN values, timestamp jitter off
the grid incl. exactly half a period -> round-half-even).
Harness A: the real OrderedRingBuffer (list and numpy containers) driven directly, full comparison
with a slot-map reference model after every update, plus window queries by index and by (unaligned)
datetimes, dump/load round trips.  Harness B: the real MovingWindow task on the simulated loop fed
through a channel, queried at idle points.
"""

from __future__ import annotations

import asyncio
import math
import os
import tempfile
from datetime import datetime, timedelta
from typing import Any

from sim.env import Sim

ID = "C09"
REAL = ["OrderedRingBuffer (update, _update_gaps, _cleanup_gaps, _remove_gap, window, _fill_gaps, _wrapped_buffer_window, "
        "normalize_timestamp, count_valid, count_covered, oldest/newest_timestamp, is_missing)", "serialization dump/load",
        "MovingWindow (_run_impl task, window, at, __getitem__)"]
STUB = ["sample source: a regular stream passed through a lossy / duplicating / reordering / jumping transport"]
RULE = ("one run = one buffer (capacity 1-12, period 7 us/1 ms/0.5 s/1 s/1.000001 s/7 s, align_to on or off the data grid or in a "
        "daylight-saving zone, window optionally straddling a clock change with zone-stamped samples, list or numpy, dump/load) and "
        "a history of 10-60 updates from the faulty transport, each followed by a full comparison with the slot-map model and "
        "2-4 window queries (indices incl. None/negative/out of range, datetimes inside/outside/straddling/unaligned/closer "
        "than one period/reversed; fill NaN/number/None); non-trivial = the history contains an out-of-order, too-old, jump, "
        "missing-value or off-grid update; distinct = abstract digest of (update kind) sequence"
        " Also: periods of 100 and 200 ms, queries of the buffer before its first update."
        " Fill value 0.0 drawn as well.")
QUICK_RUNS = 6000
THOROUGH_RUNS = 400_000
EXPECT_PROBES = ["too_old_rejected", "jump_beyond_capacity", "out_of_order_in_window", "missing_value_update", "overwrite",
                 "half_period_jitter", "unaligned_datetime_query", "query_closer_than_one_period", "dump_load_roundtrip",
                 "wrapped_window", "moving_window_variant", "gap_split", "query_with_hole_inside",
                 "valid_slot_overwritten_by_missing", "missing_bridges_two_gaps", "dump_load_of_empty_buffer",
                 "align_to_in_dst_zone", "window_straddles_clock_change"]

MISSING = None


class Model:
    """dict slot -> value | MISSING, window = newest-cap+1 .. newest."""

    def __init__(self, cap: int, period_us: int, align: datetime) -> None:
        from datetime import timezone

        # all model arithmetic in UTC (absolute time): `aware + timedelta` is wall-clock arithmetic in the
        # datetime's own zone and would be off across a daylight-saving change
        self.cap, self.period_us, self.align = cap, period_us, align.astimezone(timezone.utc)
        self.newest: int | None = None
        self.data: dict[int, float | None] = {}
        self.slot_base = 0      # where (in slots from align_to) the generated history starts

    def slot_frac(self, ts: datetime) -> tuple[int, int]:
        d = ts - self.align
        us = (d.days * 86400 + d.seconds) * 1_000_000 + d.microseconds
        return divmod(us, self.period_us)

    def slot(self, ts: datetime) -> int:
        q, r = self.slot_frac(ts)
        if 2 * r > self.period_us or (2 * r == self.period_us and q % 2 != 0):
            q += 1
        return q

    def ts(self, slot: int) -> datetime:
        return self.align + timedelta(microseconds=slot * self.period_us)

    def lo(self) -> int:
        assert self.newest is not None
        return self.newest - self.cap + 1

    def update(self, ts: datetime, value: float | None) -> bool:
        s = self.slot(ts)
        if self.newest is not None and s < self.lo():
            return False
        self.newest = s if self.newest is None else max(self.newest, s)
        self.data[s] = value
        for k in [k for k in self.data if k < self.lo()]:
            del self.data[k]
        return True

    def valid_slots(self) -> list[int]:
        return sorted(k for k, v in self.data.items() if v is not None)

    def get(self, s: int) -> float | None:
        if self.newest is None or s < self.lo() or s > self.newest:
            return None
        return self.data.get(s)


def _eq(a: Any, b: Any) -> bool:
    if a is None or b is None:
        return a is None and b is None
    fa, fb = float(a), float(b)
    return (math.isnan(fa) and math.isnan(fb)) or fa == fb


def _check_state(sim: Sim, buf: Any, m: Model, sig: dict[str, Any]) -> None:
    valid = m.valid_slots()
    cv = buf.count_valid()
    if cv != len(valid):
        sim.violation("count_valid", sig, f"count_valid() = {cv}, model has {len(valid)} valid slots {valid} in window "
                                          f"[{m.lo() if m.newest is not None else None}, {m.newest}]")
    if m.newest is None:
        return
    # ---- gaps: union == non-valid slots inside the window
    gap_slots: set[int] = set()
    prev_end = None
    for g in buf.gaps:
        a, b = m.slot(g.start), m.slot(g.end)
        # (an empty gap, start == end, covers nothing and is harmless: not flagged)
        if g.start > g.end:
            sim.violation("gaps", dict(sig, what="reversed gap"), f"{g}")
        prev_end = g.end
        gap_slots.update(range(max(a, m.lo()), min(b, m.newest + 1)))
    want_gap = {s for s in range(m.lo(), m.newest + 1) if m.data.get(s) is None}
    if gap_slots != want_gap:
        sim.violation("gaps", dict(sig, what="gap list differs from the non-valid slots"),
                      f"gaps cover slots {sorted(gap_slots)}, non-valid slots in the window are {sorted(want_gap)} "
                      f"(window {m.lo()}..{m.newest}, valid {valid})")
    for s in range(m.lo(), m.newest + 1):
        if buf.is_missing(m.ts(s)) != (m.data.get(s) is None):
            sim.violation("gaps", dict(sig, what="is_missing"), f"is_missing(slot {s}) = {buf.is_missing(m.ts(s))}, "
                                                                f"model value {m.data.get(s)}")
    # ---- oldest / newest timestamps
    ot, nt = buf.oldest_timestamp, buf.newest_timestamp
    if not valid:
        if ot is not None or nt is not None:
            sim.violation("timestamps", dict(sig, what="not None for an empty buffer"), f"oldest {ot} newest {nt}")
        return
    if ot != m.ts(valid[0]):
        sim.violation("timestamps", dict(sig, what="oldest_timestamp"),
                      f"oldest_timestamp = {ot} (slot {m.slot(ot) if ot else None}), oldest valid slot is {valid[0]}")
    if nt is None or not valid[-1] <= m.slot(nt) <= m.newest or nt != m.ts(m.slot(nt)):
        sim.violation("timestamps", dict(sig, what="newest_timestamp"),
                      f"newest_timestamp = {nt}, newest valid slot {valid[-1]}, newest written slot {m.newest}")
    cc = buf.count_covered()
    if cc != m.slot(nt) - valid[0] + 1:
        sim.violation("timestamps", dict(sig, what="count_covered"), f"count_covered() = {cc}, oldest slot {valid[0]}, "
                                                                      f"newest_timestamp slot {m.slot(nt)}")


def _expected(m: Model, a: int, n: int, fill: float | None) -> list[Any]:
    out = []
    for s in range(a, a + n):
        v = m.get(s)
        out.append(v if v is not None else ("HOLE" if fill is None else fill))
    return out


def _match(res: list[Any], exp: list[Any]) -> bool:
    if len(res) != len(exp):
        return False
    return all(e == "HOLE" or _eq(r, e) for r, e in zip(res, exp))


def _query(sim: Sim, buf: Any, m: Model, sig: dict[str, Any]) -> None:
    ch = sim.ch
    valid = m.valid_slots()
    fill = [math.nan, -1.0, None, 0.0][ch.weighted("fill", [3, 2, 1, 2])]
    kw: dict[str, Any] = {"fill_value": fill}
    if not valid:
        r = list(buf.window(None, None, **kw))
        if r:
            sim.violation("window", dict(sig, what="data from an empty buffer"), f"{r}")
        return
    nt = buf.newest_timestamp
    cov_lo, cov_hi = valid[0], m.slot(nt)          # covered range as reported (checked by _check_state)
    ncov = cov_hi - cov_lo + 1
    if ch.weighted("query_kind", [2, 3]) == 0:
        # ---- by index: python slice semantics over the covered range
        opts = [None, 0, 1, -1, -2, ncov, ncov + 3, -ncov - 2, ncov // 2]
        a, b = opts[ch.draw("qi_start", len(opts))], opts[ch.draw("qi_end", len(opts))]
        res = list(buf.window(a, b, **kw))
        s0, s1, _ = slice(a, b).indices(ncov)
        exp = _expected(m, cov_lo + s0, max(0, s1 - s0), fill)
        sim.ev("query", "index", a, b)
        if not _match(res, exp):
            sim.violation("window", dict(sig, what="by index", hole="HOLE" in exp or (fill is not None and fill in exp)),
                          f"window({a}, {b}, fill={fill}) = {res}, expected {exp} (covered slots {cov_lo}..{cov_hi}, "
                          f"valid {valid})")
        return
    # ---- by datetime: any position relative to the covered range, aligned or not
    def pick(label: str) -> tuple[datetime, bool]:
        base = ch.int_between(label + "_slot", cov_lo - 3, cov_hi + 4)
        off_kind = ch.weighted(label + "_off", [3, 2, 1, 1])
        if off_kind == 0:
            off = 0
        elif off_kind == 1:
            off = ch.int_between(label + "_off_us", 1, m.period_us - 1)
        elif off_kind == 2:
            off = m.period_us // 2
        else:
            off = ch.choice(label + "_edge", [1, m.period_us - 1])
        return m.ts(base) + timedelta(microseconds=off), off != 0

    (start, ua), (end, ub) = pick("qs"), pick("qe")
    if ua or ub:
        sim.probe("unaligned_datetime_query")
    span_us = (end - start) // timedelta(microseconds=1)
    if 0 < span_us < m.period_us:
        sim.probe("query_closer_than_one_period")
    res = list(buf.window(start, end, **kw))
    sim.ev("query", "datetime", (start - m.align) // timedelta(microseconds=1), span_us)
    qdesc = (f"window(align+{(start - m.align) / timedelta(microseconds=m.period_us):.4f}p, "
             f"align+{(end - m.align) / timedelta(microseconds=m.period_us):.4f}p, fill={fill})")
    ctx = f"covered slots {cov_lo}..{cov_hi}, valid {valid}, window {m.lo()}..{m.newest}"
    if span_us <= 0:
        if res:
            sim.violation("window", dict(sig, what="reversed or empty interval returns data"), f"{qdesc} = {res}; {ctx}")
        return
    max_slots = -(-span_us // m.period_us)
    if len(res) > max_slots:
        sim.violation("window", dict(sig, what="more slots than the query spans"),
                      f"{qdesc} returned {len(res)} values {res} for a span of {span_us / m.period_us:.3f} periods; {ctx}")
    # clip to the covered range, then: the result must be the model content of *some* run of consecutive
    # slots starting within one slot of the (unaligned) start
    cs = max(start, m.ts(cov_lo))
    ce = min(end, m.ts(cov_hi + 1))
    if cs >= ce:
        if res:
            sim.violation("window", dict(sig, what="data outside the covered range"), f"{qdesc} = {res}; {ctx}")
        return
    q, r = m.slot_frac(cs)
    starts = [q] if r == 0 else [q, q + 1]
    aligned = r == 0 and m.slot_frac(ce)[1] == 0
    if aligned:
        exp = _expected(m, q, m.slot_frac(ce)[0] - q, fill)
        if "HOLE" in exp or any(m.get(s) is None for s in range(q, m.slot_frac(ce)[0])):
            sim.probe("query_with_hole_inside")
        if not _match(res, exp):
            sim.violation("window", dict(sig, what="aligned datetime query"), f"{qdesc} = {res}, expected {exp}; {ctx}")
        return
    if any(m.get(s) is None for s in range(q, m.slot(ce) + 1)):
        sim.probe("query_with_hole_inside")
    ok = any(_match(res, _expected(m, a, len(res), fill)) for a in starts)
    if not ok:
        sim.violation("window", dict(sig, what="unaligned datetime query returns values of other slots"),
                      f"{qdesc} = {res}; no run of consecutive slots starting at {starts} has this content "
                      f"(slot contents {[(s, m.get(s)) for s in range(starts[0] - 1, starts[-1] + len(res) + 1)]}); {ctx}")


def _gen_history(sim: Sim, m: Model, n: int) -> list[tuple[datetime, float | None, str]]:
    """A regular stream through the faulty transport -> list of (timestamp, value, kind)."""
    ch = sim.ch
    out: list[tuple[datetime, float | None, str]] = []
    cur = ch.int_between("first_slot", -5, 50) + m.slot_base
    held: list[tuple[int, float]] = []
    val = 0.0
    for _ in range(n):
        val += 1.0
        k = ch.weighted("transport", [10, 2, 2, 2, 1, 2, 1, 1, 2])
        kind = ["ok", "drop", "dup", "reorder", "jump", "missing", "old", "hold", "missing_old"][k]
        slot = cur
        if kind == "drop":
            cur += 1 + ch.draw("drop_n", 3)
            slot = cur
        elif kind == "dup":
            slot = cur - 1 - ch.draw("dup_back", 2)
        elif kind == "reorder":
            slot = cur - ch.int_between("reorder_back", 1, max(1, m.cap))
        elif kind == "jump":
            cur += m.cap + ch.int_between("jump_extra", 0, 2 * m.cap)
            slot = cur
        elif kind == "missing_old":
            # a None/NaN for a slot that was already written (overwrites a valid value inside the window)
            slot = cur - 1 - ch.draw("missing_back", max(1, m.cap))
        elif kind == "old":
            slot = cur - m.cap - ch.int_between("old_extra", 0, 3)
        elif kind == "hold":
            held.append((cur, val))
            cur += 1
            continue
        jit = ch.weighted("jitter", [6, 2, 1, 1])
        off = 0
        if jit == 1:
            # anywhere between the neighbouring slots (the model decides which slot the timestamp belongs to)
            off = ch.int_between("jitter_us", -(m.period_us - 1), m.period_us - 1)
        elif jit == 2 and m.period_us % 2 == 0:
            off = (m.period_us // 2) * (1 if ch.draw("half_sign", 2) else -1)
            sim.probe("half_period_jitter")
        elif jit == 3:
            off = ch.choice("jitter_edge", [1, -1])
        ts = m.ts(slot) + timedelta(microseconds=off)
        v: float | None = val
        if kind in ("missing", "missing_old"):
            v = [None, math.nan][ch.draw("missing_kind", 2)]
        out.append((ts, v, kind))
        if kind in ("ok", "missing"):
            cur += 1
        if held and ch.chance("release_held", 0.5):
            hs, hv = held.pop(0)
            out.append((m.ts(hs), hv, "late"))
    return out


def scenario_buffer(sim: Sim) -> None:
    import numpy as np
    from frequenz.quantities import Quantity
    from frequenz.sdk.timeseries import Sample
    from frequenz.sdk.timeseries._ringbuffer import OrderedRingBuffer
    from frequenz.sdk.timeseries._ringbuffer.serialization import dump, load

    ch = sim.ch
    cap = ch.int_between("capacity", 1, sim.scale(12, 24))
    # (incl. periods with an odd number of microseconds: there is no exact half-way point then)
    period_us = ch.choice("period", [1_000_000, 500_000, 1_000, 7_000_000, 7, 1_000_001, 100_000, 200_000])
    align = datetime(2024, 1, 1, tzinfo=sim.epoch.tzinfo) + timedelta(microseconds=ch.choice(
        "align_off", [0, 0, 250_000, 333_333, 999_999, 1]) % period_us)
    dst_far = False
    straddle = False
    if ch.chance("window_straddles_clock_change", 0.1):
        # the data crosses the end of daylight saving time (2023-10-29 01:00 UTC in Europe/Berlin) while the
        # window covers it, and the samples are stamped in that zone (same instants as their UTC twins)
        from zoneinfo import ZoneInfo

        straddle = True
        align = datetime(2023, 10, 29, 0, 0, tzinfo=sim.epoch.tzinfo)
        sim.probe("window_straddles_clock_change")
    elif ch.chance("align_in_dst_zone", 0.12):
        # the same kind of alignment point, given in a zone that observes daylight saving and lies on the other
        # side of a clock change than the data (one fixed instant; the slot grid is align_to + k * period)
        from zoneinfo import ZoneInfo

        align = datetime(2023, 7, 1, 0, 0, tzinfo=ZoneInfo("Europe/Berlin")) + timedelta(microseconds=ch.choice(
            "align_off_dst", [0, 250_000, 1]) % period_us)
        sim.probe("align_to_in_dst_zone")
        dst_far = True
    container = ch.draw("container", 2)
    buf: Any = OrderedRingBuffer(np.empty(shape=(cap,), dtype=float) if container == 0 else [0.0] * cap,
                                 timedelta(microseconds=period_us), align)
    m = Model(cap, period_us, align)
    if dst_far:
        m.slot_base = (244 * 86400 * 1_000_000) // period_us    # ~8 months later: the other side of the clock change
    if straddle:
        m.slot_base = (3600 * 1_000_000) // period_us - 25      # the clock change happens ~25 slots into the history
    sig = {"container": "numpy" if container == 0 else "list"}
    sim.config.update(cap=cap, period_us=period_us, container=sig["container"], align_off=str(align))
    sim.note(f"buffer cap={cap} period={period_us}us container={sig['container']} align={align}")
    hist = _gen_history(sim, m, ch.int_between("nupdates", 10, sim.scale(60, 150)))
    if ch.chance("dump_load_before_first_update", 0.05):
        # a buffer persisted before it ever received a sample must behave like a new one after loading
        sim.probe("dump_load_of_empty_buffer")
        path = os.path.join(tempfile.gettempdir(), f"verif-c09-{os.getpid()}.pkl")
        try:
            dump(buf, path)
            buf = load(path)
        finally:
            if os.path.exists(path):
                os.remove(path)
    if ch.chance("query_empty_buffer", 0.25):
        # before the first update: nothing is stored, so nothing may be reported or returned (never unwritten slots)
        sim.probe("empty_buffer_queried")
        if buf.count_valid() != 0 or buf.count_covered() != 0 or list(buf.gaps):
            sim.violation("count_valid", dict(sig, what="empty buffer"),
                          f"new buffer: count_valid {buf.count_valid()} count_covered {buf.count_covered()} gaps {buf.gaps}")
        if buf.oldest_timestamp is not None or buf.newest_timestamp is not None:
            sim.violation("timestamps", dict(sig, what="not None for an empty buffer"),
                          f"oldest {buf.oldest_timestamp} newest {buf.newest_timestamp}")
        t_a = m.ts(m.slot_base)
        for q in ((t_a, t_a + timedelta(microseconds=3 * period_us)), (None, None), (0, 2), (-2, None)):
            w = buf.window(q[0], q[1], force_copy=True, fill_value=None)
            if len(w) != 0:
                sim.violation("window", dict(sig, what="empty buffer returns slots"), f"window{q} of a new buffer = {list(w)}")
    for ts, v, kind in hist:
        s = m.slot(ts)
        if kind not in ("ok",) or ts != m.ts(s):
            sim.nontrivial = True
        before = m.newest
        in_window_before = before is not None and m.lo() <= s <= before
        had = m.get(s) if in_window_before else None
        if straddle:
            from zoneinfo import ZoneInfo

            ts = ts.astimezone(ZoneInfo("Europe/Berlin"))
        sample = Sample(ts, None if v is None else Quantity(v))
        vv = None if (v is None or math.isnan(v)) else v
        accepted = m.update(ts, vv)
        sim.ev("update", kind, s, vv)
        sim.note(f"update slot {s}{'' if ts == m.ts(s) else ' (off-grid)'} value {vv} [{kind}]")
        try:
            buf.update(sample)
            raised = False
        except IndexError:
            raised = True
        if accepted:
            if before is not None and s - before >= cap:
                sim.probe("jump_beyond_capacity")
            if in_window_before and s < before:
                sim.probe("out_of_order_in_window")
            if had is not None:
                sim.probe("overwrite")
            if vv is None:
                sim.probe("missing_value_update")
                if had is not None:
                    sim.probe("valid_slot_overwritten_by_missing")
                    if m.get(s - 1) is None and m.get(s + 1) is None and m.lo() < s < (m.newest or s):
                        sim.probe("missing_bridges_two_gaps")
            if in_window_before and had is None and vv is not None and m.get(s - 1) is None and m.get(s + 1) is None \
                    and m.lo() < s < (m.newest or s):
                sim.probe("gap_split")
        else:
            sim.probe("too_old_rejected")
        if raised != (not accepted):
            sim.violation("too_old", dict(sig, what="accepted" if not raised else "rejected"),
                          f"update for slot {s} (window {m.lo()}..{m.newest}): IndexError raised={raised}, expected "
                          f"{'rejection' if not accepted else 'acceptance'}")
        _check_state(sim, buf, m, sig)
        if m.newest is not None and cap > 1 and m.valid_slots():
            lo_pos = buf.to_internal_index(m.ts(m.lo()))
            if lo_pos != 0:
                sim.probe("wrapped_window")
        for _ in range(ch.int_between("nqueries", 0, 3)):
            _query(sim, buf, m, sig)
        if ch.chance("dump_load", 0.03):
            sim.probe("dump_load_roundtrip")
            path = os.path.join(tempfile.gettempdir(), f"verif-c09-{os.getpid()}.pkl")
            try:
                dump(buf, path)
                buf2 = load(path)
            finally:
                if os.path.exists(path):
                    os.remove(path)
            _check_state(sim, buf2, m, dict(sig, after="load"))
            buf = buf2


def scenario_moving_window(sim: Sim) -> None:
    from frequenz.channels import Broadcast
    from frequenz.quantities import Quantity
    from frequenz.sdk.timeseries import MovingWindow, Sample

    ch = sim.ch
    sim.probe("moving_window_variant")
    period_us = ch.choice("period", [1_000_000, 500_000, 7_000_000])
    cap = ch.int_between("capacity", 1, 10)
    align = datetime(2024, 1, 1, tzinfo=sim.epoch.tzinfo) + timedelta(microseconds=ch.choice("align_off", [0, 250_000, 1]))
    m = Model(cap, period_us, align)
    sig = {"container": "moving_window"}
    sim.config.update(cap=cap, period_us=period_us, variant="moving_window")
    hist = [h for h in _gen_history(sim, m, ch.int_between("nupdates", 10, 50))]
    sim.set_cost_mode(ch.weighted("cost_mode", [3, 1]))

    async def main() -> None:
        chan: Any = Broadcast(name="mw-in")
        mw = MovingWindow(size=timedelta(microseconds=cap * period_us), resampled_data_recv=chan.new_receiver(limit=1000),
                          input_sampling_period=timedelta(microseconds=period_us), align_to=align)
        mw.start()
        tx = chan.new_sender()
        for ts, v, kind in hist:
            s = m.slot(ts)
            if m.newest is not None and s < m.lo():
                continue        # a too-old sample would (legitimately) end the window's task: outside the quantifier
            vv = None if (v is None or math.isnan(v)) else v
            if kind != "ok" or ts != m.ts(s):
                sim.nontrivial = True
            m.update(ts, vv)
            sim.ev("update", kind, s, vv)
            sim.note(f"send slot {s} value {vv} [{kind}]")
            await tx.send(Sample(ts, None if v is None else Quantity(v)))
            g = ch.weighted("gap", [3, 3, 1])
            if g == 0:
                continue
            await asyncio.sleep(0 if g == 1 else ch.int_between("gap_us", 1, 500_000) / 1e6)
            # settled?  (sleep(0) is not enough for the window's task to have consumed everything)
            await asyncio.sleep(0.001)
            if not mw.is_running:
                sim.violation("liveness", sig, "MovingWindow task ended")
            _check_state(sim, mw._buffer, m, sig)
            if mw.count_valid() != len(m.valid_slots()):
                sim.violation("count_valid", sig, f"MovingWindow.count_valid() {mw.count_valid()}")
            for _ in range(ch.int_between("nqueries", 0, 2)):
                _query(sim, mw, m, sig)
            valid = m.valid_slots()
            if valid:
                s2 = valid[ch.draw("at_slot", len(valid))]
                got = mw.at(m.ts(s2))
                if not _eq(got, m.get(s2)):
                    sim.violation("window", dict(sig, what="at(timestamp)"), f"at(slot {s2}) = {got}, model {m.get(s2)}")
                got2 = mw[s2 - valid[0]]
                if not _eq(got2, m.get(s2)):
                    sim.violation("window", dict(sig, what="at(index)"), f"[{s2 - valid[0]}] = {got2}, model {m.get(s2)}")
        await mw.stop()

    sim.run(main())


def scenario(sim: Sim) -> None:
    if sim.ch.weighted("variant", [4, 1]) == 0:
        scenario_buffer(sim)
    else:
        scenario_moving_window(sim)


# --------------------------------------------------------------------------- in-process mutants
def _patch(name: str, fn: Any) -> Any:
    from frequenz.sdk.timeseries._ringbuffer import buffer as rb

    orig = getattr(rb.OrderedRingBuffer, name)
    setattr(rb.OrderedRingBuffer, name, fn)
    return lambda: setattr(rb.OrderedRingBuffer, name, orig)


def _mut_cleanup_gaps_skipped() -> Any:
    return _patch("_cleanup_gaps", lambda self: None)


def _mut_remove_gap_no_split() -> Any:
    from frequenz.sdk.timeseries._ringbuffer import buffer as rb

    orig = rb.OrderedRingBuffer._remove_gap

    def rem(self: Any, timestamp: Any) -> None:
        for g in self._gaps:
            if g.contains(timestamp):
                if g.start == timestamp:
                    g.start = timestamp + self._sampling_period
                else:
                    g.end = timestamp        # middle: the part after the timestamp is forgotten
                return

    return _patch("_remove_gap", rem)


def _mut_round_half_up() -> Any:
    def norm(self: Any, timestamp: Any) -> Any:
        n, r = divmod(timestamp - self._time_index_alignment, self._sampling_period)
        if r * 2 >= self._sampling_period:
            n += 1
        return self._time_index_alignment + n * self._sampling_period

    return _patch("normalize_timestamp", norm)


def _mut_too_old_off_by_one() -> Any:
    from frequenz.sdk.timeseries._ringbuffer import buffer as rb

    orig = rb.OrderedRingBuffer.update

    def update(self: Any, sample: Any) -> None:
        ts = self.normalize_timestamp(sample.timestamp)
        if self._timestamp_oldest != self._TIMESTAMP_MAX and ts == self._timestamp_oldest:
            raise IndexError("too old (mutant)")
        orig(self, sample)

    return _patch("update", update)


def _mut_fill_gaps_skipped() -> Any:
    return _patch("_fill_gaps", lambda self, data, fill_value, oldest_timestamp, gaps: data)


MUTANTS = {"cleanup_gaps_skipped": _mut_cleanup_gaps_skipped, "remove_gap_no_split": _mut_remove_gap_no_split,
           "round_half_up": _mut_round_half_up, "too_old_off_by_one": _mut_too_old_off_by_one,
           "fill_gaps_skipped": _mut_fill_gaps_skipped}
