"""C06 - every formula sample is computed from inputs of a single timestamp.

Differential oracle: the same formula over the same stream contents is run under the lock-step
schedule (what the unit tests do) and under a drawn delivery schedule (per-stream lag, staggered
starts, late consumer, stalls).  Every (stream, T) value is distinct, so any mixing of timestamps
shows up as a differing value - without the harness ever evaluating the expression (R4).
"""

from __future__ import annotations

import asyncio
from typing import Any

from props import formula_common as fc
from sim.env import Sim

ID = "C06"
REAL = ["FormulaEngine._run", "FormulaEvaluator (_synchronize_metric_timestamps, apply)", "MetricFetcher",
        "FormulaBuilder / HigherOrderFormulaBuilder composition (sub-engines, shared fetchers)",
        "FormulaEngine3Phase / HigherOrderFormulaBuilder3Phase", "frequenz.channels Broadcast",
        "PV/Battery/GridPowerFormula generators + FallbackFormulaMetricFetcher (generated variant)"]
STUB = ["input stream producers (the harness plays the resampling actor)", "output consumer"]
RULE = ("one run = a drawn formula (flat builder / composed with sub-engines / 3-phase / SDK-generated PV, battery or grid power "
        "formula with fallback fetchers whose primaries go missing and recover) over 1-6 streams with "
        "drawn first timestamps, delivered under a drawn interleaving (which stream next, gap, stalls, consumer "
        "attach point, receiver capacity) and compared with the lock-step run; non-trivial = streams were "
        "delivered with non-zero relative lag or staggered starts; distinct = abstract digest of the delivery "
        "sequence (stream order)"
        " Also: None samples (nones_are_zeros drawn per stream), per-stream UTC offsets of the stamps, first"
        " timestamps up to 95 steps apart for flat formulas.")
QUICK_RUNS = 5000
THOROUGH_RUNS = 300_000
EXPECT_PROBES = ["staggered_start", "late_attach", "lag_ge_3", "forced_settle", "generated_formula_with_fallback",
                 "fallback_formula_with_missing_primary", "missing_input_values",
                 "start_spread_beyond_capacity"]


async def _run_once(sim: Sim, spec: dict[str, Any], lockstep: bool) -> list[tuple[int, Any]]:
    from frequenz.channels import Broadcast
    from frequenz.quantities import Power
    from frequenz.sdk.timeseries.formula_engine._formula_engine import FormulaEngine, FormulaEngine3Phase

    ch = sim.ch
    n, starts, rounds, cap, kind, tree = (spec[k] for k in ("n", "starts", "rounds", "cap", "kind", "tree"))
    tstar = max(starts)
    end = tstar + rounds
    tag = "L" if lockstep else "S"
    chans = [Broadcast(name=f"in{tag}{i}") for i in range(n)]
    rxs = [c.new_receiver(limit=cap) for c in chans]
    txs = [c.new_sender() for c in chans]
    naz = spec.get("naz") or [False] * n
    missing: set[tuple[int, int]] = spec.get("missing") or set()

    def value(i: int, k: int) -> float | None:
        return None if (i, k) in missing else fc.val(i, k)

    extra: list[Any] = []
    if kind == "flat":
        built = fc.build_flat(tree, rxs, naz)
    elif kind == "composed":
        built = fc.build_composed(tree, rxs, naz, False)
    else:  # 3-phase: streams 3m..3m+2 are the phases of component m
        built = fc.Built()
        comps = []
        for m in range(n // 3):
            phases = tuple(FormulaEngine.from_receiver(f"c{m}p{p}", rxs[3 * m + p], Power.from_watts)
                           for p in range(3))
            built.engines.extend(phases)
            e3 = FormulaEngine3Phase(f"c{m}", Power.from_watts, phases)  # type: ignore[arg-type]
            extra.append(e3)
            comps.append(e3)
        top = comps[0]
        if len(comps) == 2:
            top = (comps[0] + comps[1]).build("top3") if spec["op3"] == 0 else (comps[0] - comps[1]).build("top3")
            extra.append(top)
        built.engine = top

    out: list[tuple[int, Any]] = []
    reader: asyncio.Task[None] | None = None

    def attach() -> None:
        nonlocal reader
        rx_out = built.engine.new_receiver(max_size=2000)

        async def rd() -> None:
            async for s in rx_out:
                k = fc.ts_index(sim, s.timestamp)
                if kind == "3phase":
                    v: Any = tuple(None if x is None else x.as_watts() for x in (s.value_p1, s.value_p2, s.value_p3))
                else:
                    v = fc.out_value(s)
                out.append((k, v))
                if not lockstep:
                    sim.ev("out", "", k)

        reader = sim.spawn(rd())

    if lockstep:
        attach()
        await asyncio.sleep(0.01)
        for k in range(tstar, end):
            for i in range(n):
                await txs[i].send(fc.make_sample(sim, k, value(i, k), i))
            await asyncio.sleep(0.5)
    else:
        nxt = list(starts)
        total = sum(end - s for s in starts)
        attach_at = ch.weighted("attach_kind", [3, 2])
        attach_at = 0 if attach_at == 0 else ch.draw("attach_at", total + 1)
        if attach_at:
            sim.probe("late_attach")
        capeff = min(cap, 50) if kind != "flat" else cap
        bound = capeff - 2

        def backlog(i: int) -> int:
            """Upper bound of the unconsumed samples of stream i (in its leaf receiver or in any
            internal receiver downstream): before the first output nothing is assumed consumed
            (the initial synchronisation drains the lagging streams one group at a time); once an
            output stamped T was observed every stream has been consumed up to T.
            A flat formula has no internal receivers: there the leaf receiver's queue *is* the backlog, which
            allows first timestamps further apart than one receiver capacity."""
            if kind == "flat":
                return len(rxs[i]._q)
            t_out = out[-1][0] if out else -1
            return nxt[i] - max(starts[i], t_out + 1)

        sent = 0
        maxlag = 0
        while any(nxt[i] < end for i in range(n)):
            if reader is None and sent >= attach_at:
                attach()
            cand = [i for i in range(n) if nxt[i] < end and backlog(i) < bound]
            if not cand:
                sim.probe("forced_settle")
                if reader is None:
                    attach()
                await asyncio.sleep(0.001)
                continue
            i = cand[ch.draw("which", len(cand))]
            sim.ev("deliver", i, nxt[i])
            sim.note(f"deliver stream {i} T={nxt[i]}")
            await txs[i].send(fc.make_sample(sim, nxt[i], value(i, nxt[i]), i))
            nxt[i] += 1
            sent += 1
            started = [nxt[j] for j in range(n)]
            maxlag = max(maxlag, max(started) - min(started))
            g = ch.weighted("gap", [4, 3, 2, 1])
            if g == 1:
                await asyncio.sleep(0)
            elif g == 2:
                await asyncio.sleep(ch.int_between("gap_us", 1, 2000) / 1e6)
            elif g == 3:
                await asyncio.sleep(ch.int_between("gap_ms", 1, 1500) / 1e3)
            if ch.chance("stall", 0.02):
                sim.stall(ch.choice("stall_us", [1000, 300_000, 2_000_000]))
        if reader is None:
            attach()
        if maxlag >= 3:
            sim.probe("lag_ge_3")
        if maxlag > 0 or len(set(starts)) > 1:
            sim.nontrivial = True
    await asyncio.sleep(3.0)
    assert reader is not None
    reader.cancel()
    for e in extra:
        try:
            await e._stop()
        except BaseException:  # pylint: disable=broad-except
            pass
    await fc.stop_all(built)
    return out


def scenario(sim: Sim) -> None:
    ch = sim.ch
    kind = ["flat", "composed", "3phase", "generated"][ch.weighted("kind", [3, 4, 2, 2])]
    if kind == "generated":
        # formulas as the SDK generates them (PV / battery / grid power) with fallback fetchers: primary samples go
        # missing and come back, fallback streams start lazily and lag or lead - the timeline clauses must still hold
        from props import c19

        sim.probe("generated_formula_with_fallback")
        sim.config.update(kind=kind)
        c19.scenario(sim, timeline_only=True)
        return
    if kind == "3phase":
        n = 3 * (1 + ch.draw("ncomp3", 2))
        tree = None
    else:
        n0 = ch.int_between("nstreams", 1, 6)
        used: list[int] = []
        tree = fc.gen_tree(ch, n0, ch.int_between("depth", 1, 3), allow_sub=(kind == "composed"),
                           allow_div=False, used=used)
        remap = {s: j for j, s in enumerate(sorted(set(used)))}
        tree = _remap(tree, remap)
        n = len(remap)
    stag = ch.weighted("stagger", [2, 3])
    cap = ch.choice("cap", [50, 8, 16])
    # a stream may have to deliver (T* - start) samples before anything can be consumed, so the
    # spread of the first timestamps must fit the receiver capacity (else the backlog bound of the
    # property's quantifier cannot be kept at all)
    spread = {50: [0, 0, 1, 2, 3, 5, 9, 20], 16: [0, 0, 1, 2, 3, 5, 8], 8: [0, 0, 1, 2]}[cap]
    starts = [0] * n if stag == 0 else [ch.choice("start", spread) for _ in range(n)]
    if kind == "flat" and cap == 50 and n >= 2 and ch.chance("wide_start_spread", 0.15):
        # first timestamps further apart than the receiver capacity (every backlog still stays within it)
        starts = [0] * n
        starts[ch.draw("late_stream", n)] = ch.choice("late_start", [55, 70, 95])
        sim.probe("start_spread_beyond_capacity")
    if len(set(starts)) > 1:
        sim.probe("staggered_start")
    spec = dict(n=n, starts=starts, rounds=ch.int_between("rounds", 3, sim.scale(30, 45)), cap=cap,
                kind=kind, tree=tree, op3=ch.draw("op3", 2) if kind == "3phase" else 0)
    if kind != "3phase" and ch.chance("missing_values", 0.3):
        # samples whose value is missing (None) are samples all the same: the timeline clauses do not depend on them.
        # Biased towards the very first timestamps of a stream (start-up synchronisation) plus a few anywhere.
        spec["naz"] = [bool(ch.draw("nones_are_zeros", 2)) for _ in range(n)]
        miss: set[tuple[int, int]] = set()
        for i in range(n):
            if ch.chance("missing_at_start", 0.4):
                for k in range(starts[i], starts[i] + ch.int_between("n_missing_at_start", 1, 3)):
                    miss.add((i, k))
            for _ in range(ch.weighted("n_missing_anywhere", [3, 2, 1])):
                miss.add((i, max(starts) + ch.draw("missing_round", spec["rounds"])))
        spec["missing"] = miss
        sim.probe("missing_input_values")
    fc.draw_stream_offsets(sim, list(range(n)))
    cost = ch.weighted("cost_mode", [2, 1, 2])
    cost_seed = ch.draw("cost_seed", 1 << 16) if cost == 2 else 0
    sim.config.update(kind=kind, n=n, starts=starts, rounds=spec["rounds"], cap=spec["cap"],
                      formula=fc.tree_str(tree) if tree else f"3phase x{n // 3}")
    sim.ev("formula", sim.config["formula"], kind, starts)
    sim.note(f"formula {sim.config['formula']} kind={kind} starts={starts} rounds={spec['rounds']} cap={spec['cap']}")

    async def main() -> None:
        sim.order_choices = False
        ref = await _run_once(sim, spec, True)
        sim.order_choices = True
        sim.set_cost_mode(cost, cost_seed)
        got = await _run_once(sim, spec, False)
        sim.set_cost_mode(0)
        tstar = max(starts)
        want_ts = list(range(tstar, tstar + spec["rounds"]))
        sig = {"engine": kind}
        if [k for k, _ in ref] != want_ts:
            sim.violation("consecutive_timestamps", dict(sig, schedule="lockstep"),
                          f"lock-step run emitted timestamps {[k for k, _ in ref][:12]}.. expected {want_ts[:12]}..")
        got_ts = [k for k, _ in got]
        if got_ts != want_ts:
            first = next((j for j, (a, b) in enumerate(zip(got_ts, want_ts)) if a != b), min(len(got_ts), len(want_ts)))
            sim.violation("consecutive_timestamps", dict(sig, schedule="drawn"),
                          f"emitted timestamps differ from T*..T*+{spec['rounds'] - 1} at position {first}: "
                          f"got {got_ts[max(0, first - 2):first + 4]} (len {len(got_ts)}), expected "
                          f"{want_ts[max(0, first - 2):first + 4]} (len {len(want_ts)})")
        for (k, v), (_, r) in zip(got, ref):
            same = (all(fc.same_value(a, b) for a, b in zip(v, r)) if kind == "3phase" else fc.same_value(v, r))
            if not same:
                sim.violation("single_timestamp", sig,
                              f"sample stamped {k} has value {v}; with all inputs of timestamp {k} the same "
                              f"formula yields {r} (lock-step run)")

    sim.run(main())


def _remap(t: Any, m: dict[int, int]) -> Any:
    k = t[0]
    if k == "leaf":
        return ("leaf", m[t[1]])
    if k in ("const_f", "const_q"):
        return t
    if k == "un":
        return ("un", t[1], _remap(t[2], m))
    if k == "sub":
        return ("sub", _remap(t[1], m), t[2])
    return ("bin", t[1], _remap(t[2], m), _remap(t[3], m))


# --------------------------------------------------------------------------- in-process mutants
def _mut_no_sync() -> Any:
    from frequenz.sdk.timeseries.formula_engine import _formula_evaluator as fe

    orig = fe.FormulaEvaluator._synchronize_metric_timestamps

    async def nosync(self: Any, metrics: Any) -> Any:
        self._first_run = False
        return max(m.result().timestamp for m in set.__iter__(metrics))

    fe.FormulaEvaluator._synchronize_metric_timestamps = nosync  # type: ignore[method-assign]
    return lambda: setattr(fe.FormulaEvaluator, "_synchronize_metric_timestamps", orig)


def _mut_sync_off_by_one() -> Any:
    """Drain lagging streams only up to the sample *before* the latest first timestamp."""
    from frequenz.sdk.timeseries.formula_engine import _formula_evaluator as fe

    orig = fe.FormulaEvaluator._synchronize_metric_timestamps

    async def sync(self: Any, metrics: Any) -> Any:
        by_ts: dict[Any, list[str]] = {}
        for metric in metrics:
            result = metric.result()
            by_ts.setdefault(result.timestamp, []).append(metric.get_name())
        latest = max(by_ts)
        from datetime import timedelta

        for ts, names in by_ts.items():
            if ts == latest:
                continue
            while ts < latest - timedelta(seconds=1):
                for name in names:
                    nv = await self._metric_fetchers[name].fetch_next()
                    ts = nv.timestamp
        self._first_run = False
        return latest

    fe.FormulaEvaluator._synchronize_metric_timestamps = sync  # type: ignore[method-assign]
    return lambda: setattr(fe.FormulaEvaluator, "_synchronize_metric_timestamps", orig)


MUTANTS = {"no_sync": _mut_no_sync, "sync_off_by_one": _mut_sync_off_by_one}
