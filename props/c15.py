"""C15 - distribution results truthfully account for the requested power.

Real: PowerDistributingActor -> BatteryManager (_get_distribution, _distribute_power,
_set_distributed_power, _parse_result, LatestValueCaches), BatteryDistributionAlgorithm,
ComponentPoolStatusTracker + BatteryStatusTracker; and PVManager + PVInverterStatusTracker.
Stub: the microgrid API (fake data streams in, recorded set_power calls out, per-call outcome
drawn: success after a delay / OperationOutOfRange / other ApiClientError / unexpected exception /
no reply before the timeout).
"""

from __future__ import annotations

import asyncio
import math
from datetime import timedelta
from typing import Any

from sim import fakes
from sim.env import Sim

ID = "C15"
REAL = ["PowerDistributingActor", "BatteryManager (_get_distribution, _distribute_power, _set_distributed_power, _parse_result)",
        "BatteryDistributionAlgorithm", "ComponentPoolStatusTracker + BatteryStatusTracker", "PVManager (distribute_power, _set_api_power)",
        "PVInverterStatusTracker", "LatestValueCache", "Result types"]
STUB = ["microgrid API client (fake: data streams, set_power with drawn per-call outcome)"]
RULE = ("one run = a generated topology (1-3 battery groups of 1-2 batteries behind 1-2 inverters, or 1-5 PV inverters) with "
        "consistent data streamed every 0.5 s, then 4-14 requests (non-zero, adjust_power true/false) sent one after the other; "
        "every individual set_power call gets an outcome from {ok, out_of_range, api_error, unexpected, no reply before the "
        "timeout}; fault-free and faulty configurations are separate run profiles; non-trivial = at least one call failed; "
        "distinct = abstract digest of (set_power outcome, component) / result-kind sequence"
        " API timeout drawn from 0.5 / 1 / 1.5 / 2 s.")
QUICK_RUNS = 1200
THOROUGH_RUNS = 80_000
CHUNK = 10
EXPECT_PROBES = ["fractional_api_timeout", "partial_failure", "success", "timeout_outcome", "all_calls_failed", "pv_variant", "battery_variant",
                 "excess_power_nonzero", "uncertain_batteries_used", "shared_inverter_group", "concurrent_requests"]

OUTCOMES = ["ok", "out_of_range", "api_error", "unexpected", "hang"]
TOL = 1e-6


def scenario(sim: Sim) -> None:
    if sim.ch.weighted("category", [3, 2]) == 0:
        _battery(sim)
    else:
        _pv(sim)


def _outcome_fn(sim: Sim, faulty: bool, rate: int) -> Any:
    ch = sim.ch

    def fn(cid: int, w: float) -> tuple[str, int]:
        if not faulty:
            return "ok", ch.choice("ok_delay_us", [0, 1_000, 50_000, 300_000])
        k = ch.weighted("set_power_outcome", [12, rate, rate, rate, rate])
        if k:
            sim.nontrivial = True
        if k == 4:
            sim.probe("timeout_outcome")
        delay = ch.choice("delay_us", [0, 1_000, 50_000, 300_000])
        return OUTCOMES[k], delay

    return fn


def _check_result(sim: Sim, res: Any, req_power: float, calls: list[dict[str, Any]], comps_of: Any, category: str) -> None:
    """The accounting identity for one Success / PartialFailure against the recorded calls."""
    from frequenz.sdk.microgrid._power_distributing import PartialFailure, Success

    sig = {"category": category, "result": type(res).__name__}
    succ_p = res.succeeded_power.as_watts()
    exc_p = res.excess_power.as_watts()
    fail_p = res.failed_power.as_watts() if isinstance(res, PartialFailure) else 0.0
    failed_calls = [c for c in calls if c["outcome"] != "ok"]
    ok_calls = [c for c in calls if c["outcome"] == "ok"]
    call_desc = [(c["cid"], round(c["w"], 3), c["outcome"]) for c in calls]
    # coverage of the 5^n outcome vectors (per number of addressed inverters), reported as `states` in the evidence
    sim.model_states.add((category, len(calls), tuple(c["outcome"] for c in sorted(calls, key=lambda c: c["cid"]))))
    if exc_p != 0.0:
        sim.probe("excess_power_nonzero")
    if calls and len(failed_calls) == len(calls):
        sim.probe("all_calls_failed")
    tol = TOL * max(1.0, abs(req_power))
    if abs(succ_p + fail_p + exc_p - req_power) > tol:
        sim.soft_violation("sum_identity", sig,
                           f"requested {req_power} W but succeeded {succ_p} + failed {fail_p} + excess {exc_p} = "
                           f"{succ_p + fail_p + exc_p} W; calls {call_desc}")
    want_failed = sum(c["w"] for c in failed_calls)
    if abs(fail_p - want_failed) > tol:
        sim.soft_violation("failed_power", sig,
                           f"failed_power {fail_p} W but the set-points of the calls that did not succeed sum to "
                           f"{want_failed} W; calls {call_desc}")
    total_set = sum(c["w"] for c in calls)
    if abs(total_set - (succ_p + fail_p)) > tol:
        # NOT a C15 clause: C15 speaks about the three reported numbers and the failed set-points.  When the
        # commanded set-points do not add up to (requested - excess) the distribution algorithm itself created or
        # lost power - that is C01 (a pure function of its input, not decided by this technique).  Counted only.
        sim.probe("commanded_differs_from_reported")
    succ_c = set(res.succeeded_components)
    fail_c = set(res.failed_components) if isinstance(res, PartialFailure) else set()
    if succ_c & fail_c:
        sim.soft_violation("component_sets", dict(sig, what="overlap"),
                           f"components {succ_c & fail_c} both succeeded and failed")
    addressed: set[int] = set()
    for c in calls:
        addressed |= comps_of(c["cid"])
    if succ_c | fail_c != addressed:
        sim.soft_violation("component_sets", dict(sig, what="union"),
                           f"succeeded {sorted(succ_c)} + failed {sorted(fail_c)} != components addressed by the calls "
                           f"{sorted(addressed)}; calls {call_desc}")
    want_fail_c: set[int] = set()
    for c in failed_calls:
        want_fail_c |= comps_of(c["cid"])
    if fail_c != want_fail_c:
        sim.soft_violation("component_sets", dict(sig, what="failed set"),
                           f"failed_components {sorted(fail_c)} but the calls that did not succeed address "
                           f"{sorted(want_fail_c)}; calls {call_desc}")
    if isinstance(res, Success) and failed_calls:
        sim.soft_violation("success_means_all_ok", sig, f"Success although calls failed: {call_desc}")
    if isinstance(res, PartialFailure) and not failed_calls:
        sim.soft_violation("success_means_all_ok", dict(sig, what="partial failure without failed call"),
                           f"PartialFailure although every call succeeded: {call_desc}")
    del ok_calls


async def _drive(sim: Sim, api: Any, actor: Any, req_tx: Any, res_rx: Any, requests: list[dict[str, Any]],
                 comps_of: Any, category: str, feed: Any, timeout_s: float) -> None:
    from frequenz.quantities import Power
    from frequenz.sdk.microgrid._power_distributing import PartialFailure, Request, Success

    ft = sim.spawn(feed())
    await asyncio.sleep(1.5)
    i = 0
    while i < len(requests):
        # one request, or two requests for disjoint component sets in flight at the same time (the distributor
        # processes different groups concurrently on the same manager)
        batch = [requests[i]]
        if requests[i].get("pair_with_next") and i + 1 < len(requests) and not (
                set(requests[i]["ids"]) & set(requests[i + 1]["ids"])):
            batch.append(requests[i + 1])
            sim.probe("concurrent_requests")
        i += len(batch)
        ncalls = len(api.calls)
        reqs = []
        for j, rq in enumerate(batch):
            req = Request(power=Power.from_watts(rq["power"]), component_ids=rq["ids"], adjust_power=rq["adjust"])
            reqs.append(req)
            sim.ev("request", "", rq["power"])
            sim.note(f"request {rq['power']} W ids={sorted(rq['ids'])} adjust={rq['adjust']}"
                     + (" (concurrent pair)" if len(batch) > 1 else ""))
            await req_tx.send(req)
            if j == 0 and len(batch) > 1:
                await asyncio.sleep(rq.get("pair_gap_s", 0.0))
        got: dict[int, Any] = {}
        for _ in batch:
            try:
                res = await asyncio.wait_for(res_rx.receive(), timeout=timeout_s * 3 + 5)
            except asyncio.TimeoutError:
                sim.probe("no_result")
                sim.ev("result", "none")
                break
            for j, req in enumerate(reqs):
                if res.request is req or (j not in got and res.request == req):
                    got[j] = res
                    break
            else:
                sim.soft_violation("result_request", {"category": category}, f"result for an unknown request: {res}")
        all_calls = api.calls[ncalls:]
        for j, rq in enumerate(batch):
            res = got.get(j)
            if res is None:
                continue
            calls = all_calls if len(batch) == 1 else [c for c in all_calls if comps_of(c["cid"]) <= set(rq["ids"])]
            sim.ev("result", type(res).__name__)
            sim.note(f"result {type(res).__name__}: calls {[(c['cid'], round(c['w'], 2), c['outcome']) for c in calls]}")
            if isinstance(res, (Success, PartialFailure)):
                sim.probe("partial_failure" if isinstance(res, PartialFailure) else "success")
                _check_result(sim, res, rq["power"], calls, comps_of, category)
            elif calls:
                sim.soft_violation("error_without_calls", {"category": category, "result": type(res).__name__},
                                   f"{type(res).__name__} returned but set_power was called: {calls}")
        await asyncio.sleep(batch[-1]["gap_s"])
    ft.cancel()
    await actor.stop()


def _battery(sim: Sim) -> None:
    from frequenz.channels import Broadcast
    from frequenz.client.microgrid import ComponentCategory
    from frequenz.sdk.microgrid._power_distributing import PowerDistributingActor

    ch = sim.ch
    sim.probe("battery_variant")
    ngroups = ch.int_between("ngroups", 1, 3)
    groups: list[tuple[list[int], list[int]]] = []
    for g in range(ngroups):
        shape = ch.weighted("group_shape", [4, 2, 2])
        base = 10 * (g + 1)
        if shape == 0:
            groups.append(([base + 1], [base + 5]))
        elif shape == 1:
            groups.append(([base + 1], [base + 5, base + 6]))
            sim.probe("shared_inverter_group")
        else:
            groups.append(([base + 1, base + 2], [base + 5]))
            sim.probe("shared_inverter_group")
    comps, conns = fakes.battery_graph(groups)
    api = fakes.FakeMicrogridApi(sim, comps, conns)
    fakes.install_connection_manager(api)
    faulty = ch.chance("faulty_profile", 0.7)
    api.outcome_fn = _outcome_fn(sim, faulty, ch.choice("fault_rate", [2, 1, 5]))
    timeout_s = sim.ch.choice("api_timeout_s", [1.0, 0.5, 1.5, 2.0])      # whole and fractional seconds
    if timeout_s != int(timeout_s):
        sim.probe("fractional_api_timeout")
    # ---- consistent component data
    bdata: dict[int, dict[str, float]] = {}
    idata: dict[int, dict[str, float]] = {}
    for invs, bats in groups:
        for b in bats:
            incl = float(ch.choice("bat_incl", [1000, 500, 3000]))
            excl = float(ch.choice("bat_excl", [0, 0, 50, 200]))
            bdata[b] = dict(soc=float(ch.choice("soc", [50, 10, 90, 30, 75])), soc_lower_bound=10.0, soc_upper_bound=90.0,
                            capacity=float(ch.choice("capacity", [10_000, 5_000, 20_000])),
                            power_inclusion_lower_bound=-incl, power_exclusion_lower_bound=-excl,
                            power_exclusion_upper_bound=excl, power_inclusion_upper_bound=incl)
        for i in invs:
            incl = float(ch.choice("inv_incl", [1000, 800, 2000]))
            excl = float(ch.choice("inv_excl", [0, 0, 30, 100]))
            idata[i] = dict(active_power_inclusion_lower_bound=-incl, active_power_exclusion_lower_bound=-excl,
                            active_power_exclusion_upper_bound=excl, active_power_inclusion_upper_bound=incl)
    inv_bats = {i: set(bats) for invs, bats in groups for i in invs}
    all_bats = frozenset(b for _, bats in groups for b in bats)
    total_incl = sum(min(sum(bdata[b]["power_inclusion_upper_bound"] for b in bats),
                         sum(idata[i]["active_power_inclusion_upper_bound"] for i in invs)) for invs, bats in groups)
    nreq = ch.int_between("nreq", 4, sim.scale(14, 30))
    requests = []
    for _ in range(nreq):
        frac = ch.choice("power_frac", [0.5, 0.1, 0.9, 1.0, 1.3, 0.02, 0.3])
        sign = -1.0 if ch.draw("sign", 2) else 1.0
        sub = all_bats
        if ngroups > 1 and ch.chance("subset", 0.3):
            k = ch.draw("subset_group", ngroups)
            sub = frozenset(groups[k][1])
        requests.append({"power": round(sign * frac * total_incl, 3) or 1.0, "ids": sub,
                         "adjust": bool(ch.weighted("adjust", [3, 1]) == 0), "gap_s": ch.choice("gap_s", [0.05, 0.6, 2.5]),
                         "pair_with_next": ngroups > 1 and ch.chance("pair", 0.3),
                         "pair_gap_s": ch.choice("pair_gap_s", [0.0, 0.05, 0.3])})
    for a_, b_ in zip(requests, requests[1:]):
        if a_["pair_with_next"]:
            # two different groups: the pair addresses disjoint battery sets
            ka = ch.draw("pair_group_a", ngroups)
            kb = (ka + 1 + ch.draw("pair_group_b", ngroups - 1)) % ngroups
            a_["ids"], b_["ids"] = frozenset(groups[ka][1]), frozenset(groups[kb][1])
    sim.config.update(category="battery", groups=groups, faulty=faulty, nreq=nreq)
    sim.note(f"battery groups (inverters, batteries) {groups} faulty={faulty}")
    sim.set_cost_mode(ch.weighted("cost_mode", [3, 1]))

    async def main() -> None:
        req_ch: Any = Broadcast(name="requests")
        res_ch: Any = Broadcast(name="results")
        st_ch: Any = Broadcast(name="status")
        st_rx = st_ch.new_receiver(limit=1000)
        res_rx = res_ch.new_receiver(limit=100)
        actor = PowerDistributingActor(requests_receiver=req_ch.new_receiver(), results_sender=res_ch.new_sender(),
                                       component_pool_status_sender=st_ch.new_sender(),
                                       api_power_request_timeout=timedelta(seconds=timeout_s),
                                       component_category=ComponentCategory.BATTERY)
        actor.start()

        async def drain_status() -> None:
            async for st in st_rx:
                if st.uncertain and not st.working:
                    sim.probe("uncertain_batteries_used")

        sim.spawn(drain_status())

        async def feed() -> None:
            while True:
                for b, d in bdata.items():
                    api.push(b, fakes.battery_data(b, sim.wall(), **d))
                for i, d in idata.items():
                    api.push(i, fakes.inverter_data(i, sim.wall(), **d))
                await asyncio.sleep(0.5)

        await _drive(sim, api, actor, req_ch.new_sender(), res_rx, requests, lambda inv: inv_bats[inv], "battery", feed,
                     timeout_s)

    sim.run(main())


def _pv(sim: Sim) -> None:
    from frequenz.channels import Broadcast
    from frequenz.client.microgrid import ComponentCategory, InverterType
    from frequenz.sdk.microgrid._power_distributing import PowerDistributingActor

    ch = sim.ch
    sim.probe("pv_variant")
    n = ch.int_between("npv", 1, 5)
    inv_ids = [20 + i for i in range(n)]
    comps, conns = fakes.pv_graph(inv_ids)
    api = fakes.FakeMicrogridApi(sim, comps, conns)
    fakes.install_connection_manager(api)
    faulty = ch.chance("faulty_profile", 0.7)
    api.outcome_fn = _outcome_fn(sim, faulty, ch.choice("fault_rate", [2, 1, 5]))
    timeout_s = sim.ch.choice("api_timeout_s", [1.0, 0.5, 1.5, 2.0])      # whole and fractional seconds
    if timeout_s != int(timeout_s):
        sim.probe("fractional_api_timeout")
    lower = {i: -float(ch.choice("pv_bound", [1000, 300, 5000, 0, 50])) for i in inv_ids}
    total = -sum(lower.values())
    nreq = ch.int_between("nreq", 4, sim.scale(14, 30))
    requests = []
    for _ in range(nreq):
        frac = ch.choice("power_frac", [0.5, 0.1, 0.9, 1.0, 1.3, 0.02])
        p = -round(frac * max(total, 100.0), 3)
        if ch.chance("positive_or_zero", 0.1):
            p = ch.choice("pz", [0.0, 100.0])
        ids = frozenset(inv_ids)
        if n > 1 and ch.chance("subset", 0.3):
            ids = frozenset(ch.shuffle("sub", inv_ids)[: ch.int_between("subn", 1, n - 1)])
        requests.append({"power": p, "ids": ids, "adjust": True, "gap_s": ch.choice("gap_s", [0.05, 0.6, 2.5]),
                         "pair_with_next": n > 1 and ch.chance("pair", 0.3),
                         "pair_gap_s": ch.choice("pair_gap_s", [0.0, 0.05, 0.3])})
    for a_, b_ in zip(requests, requests[1:]):
        if a_["pair_with_next"]:
            order = ch.shuffle("pair_split", inv_ids)
            cut = ch.int_between("pair_cut", 1, n - 1)
            a_["ids"], b_["ids"] = frozenset(order[:cut]), frozenset(order[cut:])
    sim.config.update(category="pv", inverters=inv_ids, lower=lower, faulty=faulty, nreq=nreq)
    sim.note(f"pv inverters {inv_ids} lower bounds {lower} faulty={faulty}")
    sim.set_cost_mode(ch.weighted("cost_mode", [3, 1]))

    async def main() -> None:
        req_ch: Any = Broadcast(name="requests")
        res_ch: Any = Broadcast(name="results")
        st_ch: Any = Broadcast(name="status")
        st_rx = st_ch.new_receiver(limit=1000)
        res_rx = res_ch.new_receiver(limit=100)
        actor = PowerDistributingActor(requests_receiver=req_ch.new_receiver(), results_sender=res_ch.new_sender(),
                                       component_pool_status_sender=st_ch.new_sender(),
                                       api_power_request_timeout=timedelta(seconds=timeout_s),
                                       component_category=ComponentCategory.INVERTER, component_type=InverterType.SOLAR)
        actor.start()

        async def drain_status() -> None:
            async for _ in st_rx:
                pass

        sim.spawn(drain_status())

        async def feed() -> None:
            while True:
                for i in inv_ids:
                    api.push(i, fakes.inverter_data(i, sim.wall(), active_power_inclusion_lower_bound=lower[i],
                                                    active_power_inclusion_upper_bound=0.0))
                await asyncio.sleep(0.5)

        await _drive(sim, api, actor, req_ch.new_sender(), res_rx, requests, lambda inv: {inv}, "pv", feed, timeout_s)

    sim.run(main())


# --------------------------------------------------------------------------- in-process mutants
def _mut_failed_power_not_subtracted() -> Any:
    from frequenz.sdk.microgrid._power_distributing._component_managers import _battery_manager as bm

    orig = bm.BatteryManager._parse_result

    def parse(self: Any, tasks: Any, distribution: Any, request_timeout: Any) -> Any:
        fp, fb = orig(self, tasks, distribution, request_timeout)
        return 0.0, fb

    bm.BatteryManager._parse_result = parse  # type: ignore[method-assign]
    return lambda: setattr(bm.BatteryManager, "_parse_result", orig)


def _mut_timeout_counts_as_success() -> Any:
    from frequenz.sdk.microgrid._power_distributing._component_managers import _battery_manager as bm
    from frequenz.sdk.microgrid._power_distributing._component_managers._pv_inverter_manager import _pv_inverter_manager as pvm

    orig = bm.BatteryManager._parse_result

    def parse(self: Any, tasks: Any, distribution: Any, request_timeout: Any) -> Any:
        fp, fb = 0.0, set()
        for inv, t in tasks.items():
            if t.cancelled():
                continue
            if t.exception() is not None:
                fp += distribution[inv]
                fb.update(self._inv_bats_map[inv])
        return fp, fb

    bm.BatteryManager._parse_result = parse  # type: ignore[method-assign]
    del pvm
    return lambda: setattr(bm.BatteryManager, "_parse_result", orig)


def _mut_excess_dropped() -> Any:
    """Excess power reported as zero."""
    from frequenz.sdk.microgrid._power_distributing._component_managers import _battery_manager as bm

    orig = bm.BatteryManager._distribute_power

    async def dist(self: Any, request: Any, distribution: Any) -> Any:
        import dataclasses

        from frequenz.quantities import Power

        res = await orig(self, request, distribution)
        return dataclasses.replace(res, excess_power=Power.zero())

    bm.BatteryManager._distribute_power = dist  # type: ignore[method-assign]
    return lambda: setattr(bm.BatteryManager, "_distribute_power", orig)


def _mut_out_of_range_is_success() -> Any:
    """OperationOutOfRange rejections are not counted as failures."""
    from frequenz.client.microgrid import OperationOutOfRange
    from frequenz.sdk.microgrid._power_distributing._component_managers import _battery_manager as bm

    orig = bm.BatteryManager._parse_result

    def parse(self: Any, tasks: Any, distribution: Any, request_timeout: Any) -> Any:
        fp, fb = 0.0, set()
        for inv, t in tasks.items():
            try:
                t.result()
            except OperationOutOfRange:
                pass
            except BaseException:  # pylint: disable=broad-except
                fp += distribution[inv]
                fb.update(self._inv_bats_map[inv])
        return fp, fb

    bm.BatteryManager._parse_result = parse  # type: ignore[method-assign]
    return lambda: setattr(bm.BatteryManager, "_parse_result", orig)


MUTANTS = {"failed_power_not_subtracted": _mut_failed_power_not_subtracted,
           "timeout_counts_as_success": _mut_timeout_counts_as_success, "excess_dropped": _mut_excess_dropped,
           "out_of_range_is_success": _mut_out_of_range_is_success}

del math
