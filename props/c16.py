"""C16 - a battery is reported usable only while its data proves it healthy.

Real: BatteryStatusTracker (select loop over two data streams, two Timers and the set-power-result
stream), BlockingStatus, and in the pool variant ComponentPoolStatusTracker / ComponentPoolStatus.
Stub: the two component data streams (fake API) and the set-power results.

The oracle is a set of safety invariants evaluated at *idle points* (everything delivered so far has
been processed, every due timer has fired) from the last status on the channel and the harness' own
record of what it delivered.  Two run profiles: `exact` (no callback cost, no stalls: every boundary
instant - a message aged exactly max_data_age, silence of exactly max_data_age, a failure exactly at the
end of a blocking period, +-1 us - is generated and judged exactly) and `noisy` (callback cost and
stalls; boundary judgements get the injected slack).
"""

from __future__ import annotations

import asyncio
import math
from datetime import timedelta, timezone
from typing import Any

from sim import fakes
from sim.env import Sim

ID = "C16"
REAL = ["BatteryStatusTracker (_run select loop, _handle_status_*, _get_current_status, validity predicates)",
        "BlockingStatus", "frequenz.channels Timer x2 + select", "ComponentPoolStatusTracker + ComponentPoolStatus (pool variant)"]
STUB = ["battery / inverter data streams (fake microgrid API)", "set-power results"]
RULE = ("one run = 1 tracker (or a pool of 2-3) fed battery and inverter messages that are healthy or faulty in one way "
        "(component state, relay state, critical error, NaN capacity, stale timestamp), silences of (max_data_age -1us / = / "
        "+1us / x2), set-power results succeeded/failed/not-mentioned at drawn instants incl. exactly at the end of a "
        "blocking period, two results back to back in one loop iteration (pool), with exact (no cost) or noisy (cost + stalls) timing; non-trivial = at least one disqualifying "
        "message/silence or failed result; distinct = abstract digest of (event kind, stream) sequence; model states = "
        "(bat_ok, inv_ok, blocked, status) visited"
        " Also: messages stamped in other UTC offsets, a fresh NaN object for a missing capacity, fractional max"
        " data age / blocking duration, a streak of 50-62 consecutive failures (5% of exact runs)."
        " 8% of runs contain a device re-sending one and the same sample while it ages past the maximum data age.")
QUICK_RUNS = 3000
THOROUGH_RUNS = 200_000
EXPECT_PROBES = ["msg_aged_exactly_max", "msg_aged_max_plus_1us", "silence_exactly_max_age", "silence_max_minus_1us",
                 "failure_at_block_end", "backoff_doubled", "backoff_hit_max", "reset_on_success", "reset_after_not_working",
                 "timer_and_msg_same_instant", "pool_variant", "failure_while_not_working", "results_back_to_back",
                 "messages_stamped_in_other_utc_offset", "failing_streak_of_50",
                 "sample_resent_unchanged"]

BAD_KINDS = ["bad_state", "bad_relay", "critical_error", "nan_capacity", "stale_1us", "stale_1s"]
NW, UN, WK = "NOT_WORKING", "UNCERTAIN", "WORKING"


def _mk_msg(sim: Sim, stream: str, cid: int, kind: str, age_us: int, tz: Any = None) -> Any:
    from frequenz.client.microgrid import (BatteryComponentState, BatteryError, BatteryRelayState, ErrorLevel,
                                           InverterComponentState, InverterError)

    ts = sim.wall() - timedelta(microseconds=age_us)
    if tz is not None:
        ts = ts.astimezone(tz)      # the same instant, stamped by a device that reports in another UTC offset
    kw: dict[str, Any] = {}
    if stream == "bat":
        if kind == "bad_state":
            kw["component_state"] = BatteryComponentState.ERROR
        elif kind == "bad_relay":
            kw["relay_state"] = BatteryRelayState.OPENED
        elif kind == "critical_error":
            kw["errors"] = [BatteryError(level=ErrorLevel.CRITICAL)]
        elif kind == "nan_capacity":
            kw["capacity"] = float("nan")   # a NaN object of its own, as decoded from a message (not the math.nan singleton)
        elif kind == "warn_error":
            kw["errors"] = [BatteryError(level=ErrorLevel.WARN)]
        return fakes.battery_data(cid, ts, **kw)
    if kind == "bad_state":
        kw["component_state"] = InverterComponentState.ERROR
    elif kind == "critical_error":
        kw["errors"] = [InverterError(level=ErrorLevel.CRITICAL)]
    elif kind == "warn_error":
        kw["errors"] = [InverterError(level=ErrorLevel.WARN)]
    return fakes.inverter_data(cid, ts, **kw)


class BatFacts:
    """What the harness delivered to one battery's tracker, and the reference back-off state."""

    def __init__(self, bid: int, iid: int, max_age_us: int, min_blk_us: int, max_blk_us: int) -> None:
        self.bid, self.iid = bid, iid
        self.max_age_us, self.min_blk_us, self.max_blk_us = max_age_us, min_blk_us, max_blk_us
        self.last: dict[str, dict[str, Any] | None] = {"bat": None, "inv": None}
        self.blk_until: int | None = None
        self.blk_dur = min_blk_us
        self.blk_ambiguous = False
        self.statuses: list[tuple[int, str]] = []      # (t_us, status) as received on the channel
        self.last_msg_after_block_end: int | None = None

    def obs(self) -> str:
        return self.statuses[-1][1] if self.statuses else NW


def scenario(sim: Sim) -> None:
    from frequenz.channels import Broadcast
    from frequenz.sdk.microgrid._power_distributing._component_pool_status_tracker import ComponentPoolStatusTracker
    from frequenz.sdk.microgrid._power_distributing._component_status import (BatteryStatusTracker,
                                                                               SetPowerResult)

    ch = sim.ch
    pool = ch.chance("pool_variant", 0.3)
    nbat = ch.int_between("nbat", 2, 3) if pool else 1
    exact = ch.chance("exact_profile", 0.6)
    max_age_us = ch.choice("max_age", [5_000_000, 2_000_000, 10_000_000, 1_500_000, 700_000])
    max_blk_us = ch.choice("max_blk", [8_000_000, 4_000_000, 30_000_000, 2_500_000])
    min_blk_us = 1_000_000      # fixed inside the tracker (BlockingStatus(min_duration=1 s))
    stall_max = 0 if exact else 1_500_000
    slack = 0 if exact else stall_max + 20_000
    if not exact:
        sim.set_cost_mode(2, ch.draw("cost_seed", 1 << 16))
    if pool:
        sim.probe("pool_variant")
    groups = [([10 * (i + 1) + 1], [10 * (i + 1) + 2]) for i in range(nbat)]
    comps, conns = fakes.battery_graph(groups)
    api = fakes.FakeMicrogridApi(sim, comps, conns)
    fakes.install_connection_manager(api)
    bats = [BatFacts(g[1][0], g[0][0], max_age_us, min_blk_us, max_blk_us) for g in groups]
    tzk = ch.weighted("message_utc_offset", [3, 1, 1])
    msg_tz = [None, timezone(timedelta(hours=5)), timezone(-timedelta(hours=3, minutes=30))][tzk]
    if msg_tz is not None:
        sim.probe("messages_stamped_in_other_utc_offset")
    sim.config.update(pool=pool, nbat=nbat, exact=exact, max_age_us=max_age_us, max_blk_us=max_blk_us)
    sim.note(f"{'pool' if pool else 'single'} nbat={nbat} profile={'exact' if exact else 'noisy'} "
             f"max_age={max_age_us}us max_block={max_blk_us}us")
    pool_obs: dict[str, Any] = {"working": set(), "uncertain": set(), "n": 0}

    # ------------------------------------------------------------------ facts at an idle point
    def certain_bad(b: BatFacts, now: int) -> str | None:
        for s in ("bat", "inv"):
            m = b.last[s]
            if m is None:
                return f"no {s} message delivered yet"
            if m["health"] == "bad":
                return f"last {s} message is {m['kind']}"
            if now - m["t"] >= b.max_age_us + slack and (now - m["t"] > b.max_age_us or exact):
                return f"no {s} data for {now - m['t']} us (max_data_age {b.max_age_us} us)"
        return None

    def certain_good(b: BatFacts, now: int) -> bool:
        for s in ("bat", "inv"):
            m = b.last[s]
            if m is None or m["health"] != "good" or now - m["t"] >= b.max_age_us:
                return False
        return True

    def check(b: BatFacts) -> None:
        now = sim.now_us
        if pool:
            obs = WK if b.bid in pool_obs["working"] else (UN if b.bid in pool_obs["uncertain"] else NW)
        else:
            obs = b.obs()
        bad = certain_bad(b, now)
        good = certain_good(b, now)
        blocked = b.blk_until is not None and b.blk_until > now
        sim.model_states.add((bad is None, good, blocked, obs))
        sig = {"variant": "pool" if pool else "single"}
        if bad is not None and obs == NW:
            # re-synchronise the reference back-off: the NOT_WORKING -> WORKING transition unblocks
            b.blk_until = None
            b.blk_ambiguous = False
        if bad is not None and obs != NW:
            sim.violation("not_working_when_disqualified", dict(sig, fact=bad.split(" for ")[0].split(" is ")[0][:32]),
                          f"battery {b.bid} reported {obs} at t={now} us although {bad}")
        if good and obs == NW:
            sim.violation("working_when_healthy", sig,
                          f"battery {b.bid} reported NOT_WORKING at t={now} us although the last battery and inverter "
                          f"messages are healthy, fresh and recent ({b.last})")
        if not good or b.blk_ambiguous:
            return
        # ---- blocking period (only judged while the data is certainly healthy)
        if b.blk_until is None:
            if obs == UN:
                sim.violation("uncertain_only_while_blocked", dict(sig, what="uncertain without a failed command"),
                              f"battery {b.bid} UNCERTAIN at t={now} us but no failure is outstanding")
            return
        if now + slack < b.blk_until:
            if obs == WK:
                sim.violation("uncertain_for_blocking_period", dict(sig, what="working while blocked"),
                              f"battery {b.bid} WORKING at t={now} us although a command failed and the blocking "
                              f"period of {b.blk_dur} us lasts until {b.blk_until} us")
        elif b.last_msg_after_block_end is not None and now >= b.last_msg_after_block_end + slack and obs == UN:
            sim.violation("uncertain_for_blocking_period", dict(sig, what="still uncertain after the period"),
                          f"battery {b.bid} still UNCERTAIN at t={now} us; blocking period ({b.blk_dur} us) ended at "
                          f"{b.blk_until} us and a healthy message was processed at {b.last_msg_after_block_end} us")

    def on_idle() -> None:
        for b in bats:
            check(b)

    # ------------------------------------------------------------------ reference back-off bookkeeping
    def on_result(b: BatFacts, kind: str) -> None:
        now = sim.now_us
        obs = (WK if b.bid in pool_obs["working"] else (UN if b.bid in pool_obs["uncertain"] else NW)) if pool else b.obs()
        if kind == "succeeded":
            if b.blk_until is not None:
                sim.probe("reset_on_success")
            b.blk_until = None
            b.blk_ambiguous = False
            b.last_msg_after_block_end = None
            return
        if kind != "failed":
            return
        sim.nontrivial = True
        if obs == NW:
            sim.probe("failure_while_not_working")
            if not certain_bad(b, now):
                b.blk_ambiguous = True   # tracker may be just turning WORKING: cannot know if it was counted
            return
        if not certain_good(b, now):
            b.blk_ambiguous = True
            return
        if b.blk_until is None:
            b.blk_dur = b.min_blk_us
            b.blk_until = now + b.blk_dur
        elif b.blk_until > now + slack:
            pass                                    # still blocked: ignored
        elif b.blk_until > now or (slack and now - b.blk_until <= slack):
            b.blk_ambiguous = True                  # inside the slack (either side of the end): either
        else:
            if b.blk_until == now:
                sim.probe("failure_at_block_end")
            nd = min(2 * b.blk_dur, b.max_blk_us)
            sim.probe("backoff_doubled")
            if nd == b.max_blk_us:
                sim.probe("backoff_hit_max")
            b.blk_dur = nd
            b.blk_until = now + nd
        b.last_msg_after_block_end = None

    def on_status(b: BatFacts, status: str) -> None:
        prev = b.obs()
        if b.statuses and prev == status:
            sim.violation("only_on_change", {"variant": "single"},
                          f"battery {b.bid}: status {status} sent twice in a row at t={sim.now_us} us")
        b.statuses.append((sim.now_us, status))
        sim.ev("status", b.bid, status)
        sim.model_transitions.add((prev, status))
        if prev == NW and status != NW:
            if b.blk_until is not None:
                sim.probe("reset_after_not_working")
            b.blk_until = None           # a battery that becomes healthy again starts unblocked
            b.blk_ambiguous = False

    def deliver(b: BatFacts, stream: str, kind: str) -> None:
        cid = b.bid if stream == "bat" else b.iid
        age = 0
        health = "good"
        if kind in BAD_KINDS:
            health = "bad"
            sim.nontrivial = True
        if kind == "stale_1us":
            age = b.max_age_us + 1
            sim.probe("msg_aged_max_plus_1us")
            health = "bad" if exact else "ambiguous"
        elif kind == "stale_1s":
            age = b.max_age_us + 1_000_000 + slack
        elif kind == "aged_exact":
            age = b.max_age_us
            sim.probe("msg_aged_exactly_max")
            health = "good" if exact else "ambiguous"
        elif kind == "aged_90pct":
            age = b.max_age_us * 9 // 10 - slack if b.max_age_us * 9 // 10 > slack else 0
        elif kind == "repeat":
            # the device re-sends its last healthy sample unchanged (same timestamp): it is as old as it is
            prev_ = b.last[stream]
            age = sim.now_us - prev_["msg_ts"] if prev_ is not None and "msg_ts" in prev_ else 0
            if age > b.max_age_us + slack:
                health = "bad"
                sim.nontrivial = True
            elif age >= b.max_age_us - slack and not (exact and age <= b.max_age_us):
                health = "ambiguous"
            sim.probe("sample_resent_unchanged")
        prev = b.last[stream]
        if prev is not None and sim.now_us - prev["t"] == b.max_age_us:
            sim.probe("timer_and_msg_same_instant")
            sim.probe("silence_exactly_max_age")
            # timer and message are ready in the same iteration: either order is legal; if the timer is
            # handled first the battery goes NOT_WORKING -> WORKING, which also resets the blocking
            if b.blk_until is not None:
                b.blk_ambiguous = True
        if prev is not None and sim.now_us - prev["t"] == b.max_age_us - 1:
            sim.probe("silence_max_minus_1us")
        b.last[stream] = {"t": sim.now_us, "kind": kind, "health": health, "msg_ts": sim.now_us - age}
        if health == "good" and b.blk_until is not None and sim.now_us >= b.blk_until + slack and b.last_msg_after_block_end is None:
            b.last_msg_after_block_end = sim.now_us
        sim.ev("msg", f"{stream}:{kind}", cid)
        sim.note(f"deliver {stream} {cid} {kind}")
        api.push(cid, _mk_msg(sim, stream, cid, kind, age, msg_tz))

    # ------------------------------------------------------------------ the run
    async def main() -> None:
        status_ch: dict[int, Any] = {}
        result_ch: Any = Broadcast(name="set-power-results")
        result_tx = result_ch.new_sender()
        trackers: list[Any] = []
        tasks: list[Any] = []
        ptracker: Any = None
        if pool:
            pool_ch: Any = Broadcast(name="pool-status")
            rx = pool_ch.new_receiver(limit=2000)
            ptracker = ComponentPoolStatusTracker(
                component_ids={b.bid for b in bats}, component_status_sender=pool_ch.new_sender(),
                max_data_age=timedelta(microseconds=max_age_us), max_blocking_duration=timedelta(microseconds=max_blk_us),
                component_status_tracker_type=BatteryStatusTracker)

            async def rdp() -> None:
                async for st in rx:
                    pool_obs["working"] = set(st.working)
                    pool_obs["uncertain"] = set(st.uncertain)
                    pool_obs["n"] += 1
                    sim.ev("pool_status", "", sorted(st.working), sorted(st.uncertain))
                    for b in bats:
                        cur = WK if b.bid in st.working else (UN if b.bid in st.uncertain else NW)
                        prev = b.obs()
                        if cur != prev or not b.statuses:
                            if prev == NW and cur != NW:
                                if b.blk_until is not None:
                                    sim.probe("reset_after_not_working")
                                b.blk_until = None
                                b.blk_ambiguous = False
                            b.statuses.append((sim.now_us, cur))
                            sim.model_transitions.add((prev, cur))

            tasks.append(sim.spawn(rdp()))
        else:
            b = bats[0]
            sc: Any = Broadcast(name="status")
            status_ch[b.bid] = sc
            rx1 = sc.new_receiver(limit=2000)
            tr = BatteryStatusTracker(component_id=b.bid, max_data_age=timedelta(microseconds=max_age_us),
                                      max_blocking_duration=timedelta(microseconds=max_blk_us),
                                      status_sender=sc.new_sender(), set_power_result_receiver=result_ch.new_receiver())
            tr.start()
            trackers.append(tr)

            async def rd1() -> None:
                async for st in rx1:
                    on_status(b, st.value.name)

            tasks.append(sim.spawn(rd1()))
        await asyncio.sleep(0.05)
        sim.loop.idle_hooks.append(on_idle)

        # one schedule for all streams, strictly increasing instants (>= 3 us apart)
        nev = ch.int_between("nevents", 20, sim.scale(90, 220))
        base_gap = ch.choice("base_gap_us", [200_000, 500_000, 1_000_000])
        for _ in range(nev):
            b = bats[ch.draw("bat", nbat)]
            ek = ch.weighted("event_kind", [10, 10, 3, 3, 2] if exact else [10, 10, 3, 2, 2])
            # ---- gap before the event
            gk = ch.weighted("gap_kind", [10, 2, 2])
            if gk == 0:
                gap = ch.int_between("gap_us", base_gap // 4, base_gap)
            elif gk == 1:
                # exact profile: events a few us apart (each is fully processed at its own instant because
                # callbacks cost nothing); noisy profile: far enough apart for the processing to finish
                gap = ch.int_between("tiny_gap_us", 3, 2000) if exact else ch.int_between("small_gap_us", 5_000, 20_000)
            else:
                # aim at a boundary: silence of exactly / +-1us / x2 max_data_age on one stream, or the end of a block
                targets = []
                for s in ("bat", "inv"):
                    m = b.last[s]
                    if m is not None:
                        for off in (-1, 0, 1, max_age_us):
                            targets.append(m["t"] + max_age_us + off)
                if b.blk_until is not None:
                    for off in (-1, 0, 1):
                        targets.append(b.blk_until + off)
                targets = [t for t in targets if t > sim.now_us + 3]
                if targets and (exact or ch.chance("aim_noisy", 0.5)):
                    gap = min(targets[ch.draw("aim", len(targets))] - sim.now_us, 3 * max_age_us)
                else:
                    gap = ch.int_between("long_gap_us", max_age_us // 2, 2 * max_age_us + 5)
            await _until(sim, sim.now_us + max(3 if exact else 5_000, gap))
            if ek in (0, 1):
                stream = "bat" if ek == 0 else "inv"
                mk = ch.weighted("msg_kind", [14, 2, 1, 1, 1])
                if mk == 0:
                    kind = "healthy"
                elif mk == 1:
                    bads = BAD_KINDS if stream == "bat" else ["bad_state", "critical_error", "stale_1us", "stale_1s"]
                    kind = bads[ch.draw("bad_kind", len(bads))]
                elif mk == 2:
                    kind = "aged_exact"
                elif mk == 3:
                    kind = "aged_90pct"
                else:
                    kind = "warn_error"
                # keep both streams of every battery alive so that most of the run is spent healthy
                deliver(b, stream, kind)
                if ch.chance("feed_others", 0.7):
                    for ob in bats:
                        for s in ("bat", "inv"):
                            if (ob, s) != (b, stream) and ob.last[s] is not None and ob.last[s]["health"] == "good" \
                                    and sim.now_us - ob.last[s]["t"] > base_gap:
                                await _until(sim, sim.now_us + (3 if exact else 5_000))
                                deliver(ob, s, "healthy")
                            elif ob.last[s] is None:
                                await _until(sim, sim.now_us + (3 if exact else 5_000))
                                deliver(ob, s, "healthy")
            elif ek in (2, 3):
                rk = "failed" if ek == 2 else ["succeeded", "none"][ch.draw("res_kind", 2)]
                succ = {b.bid} if rk == "succeeded" else set()
                fail = {b.bid} if rk == "failed" else set()
                if rk == "failed":
                    sim.fault("set_power_failed")
                sim.ev("result", rk, b.bid)
                sim.note(f"set_power result for {b.bid}: {rk}")
                on_result(b, rk)
                if pool:
                    sim.spawn(ptracker.update_status(succ, fail))
                    if ch.chance("second_result_back_to_back", 0.3):
                        # results of two requests for disjoint battery sets finishing in the same loop iteration: the
                        # second one does not mention this battery (nothing the trackers have consumed in between)
                        ob = [x for x in bats if x is not b][ch.draw("other_bat", len(bats) - 1)]
                        rk2 = ["none", "succeeded", "failed"][ch.weighted("res_kind2", [2, 2, 1])]
                        sim.probe("results_back_to_back")
                        if rk2 == "failed":
                            sim.fault("set_power_failed")
                        sim.ev("result", rk2, ob.bid)
                        sim.note(f"  + back-to-back set_power result for {ob.bid}: {rk2}")
                        on_result(ob, rk2)
                        sim.spawn(ptracker.update_status({ob.bid} if rk2 == "succeeded" else set(),
                                                         {ob.bid} if rk2 == "failed" else set()))
                else:
                    sim.spawn(result_tx.send(SetPowerResult(succeeded=succ, failed=fail)))
            else:
                if not exact:
                    d = ch.int_between("stall_us", 1000, stall_max)
                    sim.note(f"stall {d} us")
                    sim.stall(d)
                    for ob in bats:
                        # events pile up behind a stall: the order in which the tracker sees a failure relative
                        # to its own status changes is no longer known to the harness
                        ob.blk_ambiguous = True
        if ch.chance("stuck_sender", 0.08):
            # a device that keeps re-sending one and the same healthy sample (stuck gateway): the data gets older and
            # older; once it is older than the maximum age the battery must not be reported working any more
            b = bats[ch.draw("stuck_bat", nbat)]
            stream = ["bat", "inv"][ch.draw("stuck_stream", 2)]
            other = "inv" if stream == "bat" else "bat"
            await _until(sim, sim.now_us + (3 if exact else 5_000))
            deliver(b, stream, "healthy")
            for _i in range(6):
                await _until(sim, sim.now_us + max_age_us // 3 + (3 if exact else 5_000))
                for ob in bats:
                    for s_ in ("bat", "inv"):
                        if (ob, s_) != (b, stream):
                            await _until(sim, sim.now_us + (3 if exact else 5_000))
                            deliver(ob, s_, "healthy")
                await _until(sim, sim.now_us + (3 if exact else 5_000))
                deliver(b, stream, "repeat")
            del other
        if exact and ch.chance("long_failing_streak", 0.05):
            # a long run: every command to one battery fails, each result arriving right after the previous blocking
            # period ended, dozens of times in a row, while its data stays healthy (fed well inside the maximum age)
            sim.probe("failing_streak_of_50")
            b = bats[0]
            feed_every = max(1000, max_age_us // 3)
            for _i in range(ch.int_between("streak_len", 50, 62)):
                target = b.blk_until + 1 if b.blk_until is not None and b.blk_until >= sim.now_us else sim.now_us + 3
                while True:
                    for ob in bats:
                        for s_ in ("bat", "inv"):
                            await _until(sim, sim.now_us + 3)
                            deliver(ob, s_, "healthy")
                    if sim.now_us + feed_every >= target:
                        break
                    await _until(sim, sim.now_us + feed_every)
                await _until(sim, max(target, sim.now_us + 3))
                sim.fault("set_power_failed")
                sim.ev("result", "failed", b.bid)
                sim.note(f"set_power result for {b.bid}: failed (streak)")
                on_result(b, "failed")
                if pool:
                    sim.spawn(ptracker.update_status(set(), {b.bid}))
                else:
                    sim.spawn(result_tx.send(SetPowerResult(succeeded=set(), failed={b.bid})))
        await asyncio.sleep(0.01)
        sim.loop.idle_hooks.remove(on_idle)
        if pool:
            st = ptracker._current_status
            for sub in ({b.bid for b in bats}, {bats[0].bid}, {bats[-1].bid, 999}):
                w = st.working & sub
                want = w if w else (st.uncertain & sub)
                if ptracker.get_working_components(sub) != want:
                    sim.violation("pool_working_components", {"variant": "pool"},
                                  f"get_working_components({sub}) = {ptracker.get_working_components(sub)}, status {st}")
            await ptracker.stop()
        for tr in trackers:
            await tr.stop()
        for t in tasks:
            t.cancel()

    sim.run(main())


async def _until(sim: Sim, when_us: int) -> None:
    fut: asyncio.Future[None] = sim.loop.create_future()
    sim.loop.at_abs(when_us, lambda: fut.done() or fut.set_result(None))
    await fut


# --------------------------------------------------------------------------- in-process mutants
def _patch(name: str, fn: Any) -> Any:
    from frequenz.sdk.microgrid._power_distributing._component_status import _battery_status_tracker as bst

    orig = getattr(bst.BatteryStatusTracker, name)
    setattr(bst.BatteryStatusTracker, name, fn)
    return lambda: setattr(bst.BatteryStatusTracker, name, orig)


def _mut_timer_ignored() -> Any:
    return _patch("_handle_status_battery_timer", lambda self: None)


def _mut_relay_not_checked() -> Any:
    from frequenz.sdk.microgrid._power_distributing._component_status import _battery_status_tracker as bst

    orig = bst.BatteryStatusTracker._battery_valid_relay
    from frequenz.client.microgrid import BatteryRelayState

    bst.BatteryStatusTracker._battery_valid_relay = set(BatteryRelayState)
    return lambda: setattr(bst.BatteryStatusTracker, "_battery_valid_relay", orig)


def _mut_backoff_not_doubling() -> Any:
    from frequenz.sdk.microgrid._power_distributing._component_status import _blocking_status as bs

    orig = bs.BlockingStatus.block

    def block(self: Any) -> Any:
        from datetime import datetime, timezone

        now = datetime.now(tz=timezone.utc)
        if self.blocked_until is not None and self.blocked_until > now:
            return timedelta(0)
        self.last_blocking_duration = self.min_duration
        self.blocked_until = now + self.min_duration
        return self.min_duration

    bs.BlockingStatus.block = block  # type: ignore[method-assign]
    return lambda: setattr(bs.BlockingStatus, "block", orig)


def _mut_stale_accepted_ge() -> Any:
    """Message age compared with >= 2*max instead of > max (stale data accepted)."""

    def outdated(self: Any, timestamp: Any) -> bool:
        from datetime import datetime, timezone

        return (datetime.now(tz=timezone.utc) - timestamp) > 2 * self._max_data_age

    return _patch("_is_timestamp_outdated", outdated)


def _mut_age_boundary_exclusive() -> Any:
    """A message aged exactly max_data_age is rejected (>= instead of >)."""

    def outdated(self: Any, timestamp: Any) -> bool:
        from datetime import datetime, timezone

        return (datetime.now(tz=timezone.utc) - timestamp) >= self._max_data_age

    return _patch("_is_timestamp_outdated", outdated)


def _mut_success_does_not_unblock() -> Any:
    def handle(self: Any, result: Any) -> None:
        if self.battery_id in result.failed and self._last_status.name != "NOT_WORKING":
            self._blocking_status.block()

    return _patch("_handle_status_set_power_result", handle)


def _mut_send_every_status() -> Any:
    from frequenz.sdk.microgrid._power_distributing._component_status import _battery_status_tracker as bst

    def get(self: Any) -> Any:
        cur = self._get_current_status()
        self._last_status = cur
        return cur

    return _patch("_get_new_status_if_changed", get)


MUTANTS = {"timer_ignored": _mut_timer_ignored, "relay_not_checked": _mut_relay_not_checked,
           "backoff_not_doubling": _mut_backoff_not_doubling, "stale_accepted": _mut_stale_accepted_ge,
           "age_boundary_exclusive": _mut_age_boundary_exclusive, "success_does_not_unblock": _mut_success_does_not_unblock,
           "send_every_status": _mut_send_every_status}
